#!/bin/bash
# usage: mutant_run.sh <seeded-dir-name e.g. C06-m1> <property> [extra vcheck args]
# Runs the property's check against a scratch worktree of /repo HEAD with the seeded patch applied
# (never touches /repo's working tree). Output/evidence go to /var/tmp/mout-<name>.
name=$1; prop=$2; shift 2
wt=/var/tmp/mw-$name-$$
out=${MOUT:-/var/tmp/mout-$name}
rm -rf $wt $out; mkdir -p $out
git -C /repo worktree prune
git -C /repo worktree add -q --detach $wt HEAD || exit 9
if ! git -C $wt apply /verif/seeded/$name/patch.diff; then echo "PATCH DOES NOT APPLY"; git -C /repo worktree remove --force $wt; exit 9; fi
cd /verif && VERIF_REPO=$wt VERIF_OUT=$out ${VCHECK:-./bin/vcheck} run $prop "$@"; rc=$?
git -C /repo worktree remove --force $wt; rm -rf $wt
echo "mutant=$name property=$prop exit=$rc"
exit $rc
