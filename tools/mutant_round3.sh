#!/bin/bash
# Round 3 (m6/m7): every change against the quick check of its own property and of related properties,
# five changes at a time, in scratch worktrees. Writes seeded/RESULTS3.tsv (or $1).
cd /verif
out=${1:-/verif/seeded/RESULTS3.tsv}
pat=${2:-m[67]}
one() {
  name=$1; own=${name%%-*}
  declare -A extra
  extra[C04-m6]="C11"; extra[C04-m7]="C11"; extra[C11-m6]="C10"; extra[C20-m7]="C17"; extra[C16-m7]="C15"; extra[C07-m6]="C05"; extra[C10-m6]="C11"; extra[C02-m6]="C18 C13"; extra[C02-m7]="C03"; extra[C14-m6]="C15"; extra[C07-m3]="C05"; extra[C07-m5]="C05"; extra[C20-m3]="C17"; extra[C13-m3]="C18"; extra[C04-m2]="C11"; extra[C04-m5]="C11"; extra[C05-m2]="C11"
  for prop in $own ${extra[$name]}; do
    log=/var/tmp/mm3-$name-$prop.log
    timeout 2400 tools/mutant_run.sh $name $prop > $log 2>&1
    rc=$(grep -o "exit=[0-9]*" $log | tail -1 | cut -d= -f2)
    det=$(grep -m1 "harness=.*native:" $log | sed 's/^ *//' | cut -c1-220)
    [ -z "$det" ] && det=$(grep -m1 "harness=" $log | sed 's/^ *//' | cut -c1-220)
    [ -z "$det" ] && det=$(grep -m1 -E "INCONCLUSIVE|SPURIOUS|PATCH DOES NOT APPLY" $log | cut -c1-160)
    echo -e "$name\t$prop\t$rc\t$det"
  done
}
export -f one
(if [ -n "$NAMES" ]; then echo $NAMES | tr ' ' '\n'; else ls -d seeded/C*-$pat | xargs -n1 basename; fi) | xargs -P ${PAR:-4} -I{} bash -c 'one {}' > $out.tmp
(echo -e "mutant\tproperty\texit\tdetail"; sort $out.tmp) > $out; rm -f $out.tmp
echo MATRIX-DONE >> $out
