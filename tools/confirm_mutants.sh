#!/bin/bash
# usage: confirm_mutants.sh Cxx [Cyy ...]
# For each mutant under /tmp/wt-<id>/MUTANTS/m*/ : confirm in a scratch worktree of /repo HEAD that
#  (1) the patch applies, builds, and the full existing suite passes with it,
#  (2) the demonstration fails with the patch and passes without it.
# Confirmed mutants are stored as /verif/seeded/<id>-m<k>/ {patch.diff, demo, meta.json}.
export GOFLAGS=-mod=mod GOPROXY=off GOSUMDB=off GOTOOLCHAIN=local
for id in "$@"; do
 for md in ${WTPREFIX:-/tmp/wt-}$id/MUTANTS/m*/; do
  k=$(basename $md)
  out=/verif/seeded/$id-$k
  wt=/var/tmp/confirm-$id-$k
  rm -rf $wt; git -C /repo worktree prune
  git -C /repo worktree add -q --detach $wt HEAD || { echo "$id $k: cannot create worktree"; continue; }
  status="ok"; notes=""
  ( cd $wt
    if ! git apply --check $md/patch.diff 2>/dev/null; then echo "APPLYFAIL"; exit 0; fi
    git apply $md/patch.diff
    go build ./... >/dev/null 2>&1 || { echo "BUILDFAIL"; exit 0; }
    if ! go test -vet=off -count=1 ./... > $wt/.suite.log 2>&1; then echo "SUITEFAIL"; exit 0; fi
    demo=$(ls $md/zz_demo*_test.go 2>/dev/null | head -1)
    [ -z "$demo" ] && { echo "NODEMO"; exit 0; }
    pkg=$(grep -m1 '^package ' $demo | awk '{print $2}'); pkg=${pkg%_test}
    # candidate dirs: directories of files in the patch first, then any dir whose package name matches
    cands=$(grep '^+++ b/' $md/patch.diff | sed 's#^+++ b/##' | xargs -n1 dirname | sort -u)
    cands="$cands $(grep -rl --include=*.go "^package $pkg\$" . 2>/dev/null | xargs -n1 dirname | sed 's#^\./##' | sort -u)"
    found=""
    for d in $cands; do
      [ -d "$d" ] || continue
      grep -q "^package $pkg\$" $d/*.go 2>/dev/null || continue
      cp $demo $d/
      if go vet -tags x ./$d >/dev/null 2>&1 || go test -vet=off -count=1 -run XXX_NONE ./$d >/dev/null 2>&1; then found=$d; break; fi
      rm -f $d/$(basename $demo)
    done
    [ -z "$found" ] && { echo "DEMONOCOMPILE"; exit 0; }
    name=$(basename $demo)
    tests=$(grep -o '^func Test[A-Za-z0-9_]*' $found/$name | sed 's/func //' | paste -sd'|')
    timeout 300 go test -vet=off -count=1 -run "^($tests)\$" ./$found > $wt/.demo_with.log 2>&1; with=$?
    git apply -R $md/patch.diff
    timeout 300 go test -vet=off -count=1 -run "^($tests)\$" ./$found > $wt/.demo_without.log 2>&1; without=$?
    echo "DEMO dir=$found with=$with without=$without tests=$tests"
  ) > $wt.result 2>&1
  res=$(tail -1 $wt.result)
  echo "$id $k: $res"
  case "$res" in
    DEMO*with=1\ without=0*|DEMO*with=2\ without=0*)
      mkdir -p $out
      cp $md/patch.diff $out/patch.diff
      cp $md/zz_demo*_test.go $out/ 2>/dev/null
      cp $md/README.md $out/README.md 2>/dev/null
      dir=$(echo "$res" | sed 's/.*dir=\([^ ]*\).*/\1/')
      python3 - "$id" "$k" "$dir" "$out" "$res" <<'PY'
import json,sys
id,k,d,out,res=sys.argv[1:6]
json.dump({"property":id,"mutant":k,"demo_package_dir":d,"confirmed":True,
 "what_was_run":["git worktree add (scratch, /repo HEAD incl. fix: commits)","git apply patch.diff","go build ./...","go test -vet=off -count=1 ./...  (existing suite: pass)","demo test with patch: FAIL","git apply -R patch.diff","demo test without patch: PASS"],
 "result":res,"needs_to_manifest":"see README.md (written by the independent sub-agent that produced the change)"},open(out+"/meta.json","w"),indent=1)
PY
      ;;
  esac
  git -C /repo worktree remove --force $wt 2>/dev/null; rm -rf $wt $wt.result
 done
done
