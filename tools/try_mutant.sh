#!/bin/bash
# usage: try_mutant.sh <patch.diff> <property> [extra vcheck args]
# applies the patch to /repo, runs the quick check, reverts. Prints exit code.
patch=$1; prop=$2; shift 2
cd /repo || exit 9
if ! git apply --check "$patch" 2>/dev/null; then
  if ! git apply --3way "$patch" 2>/dev/null; then echo "PATCH DOES NOT APPLY: $patch"; git checkout -- . ; exit 9; fi
else
  git apply "$patch"
fi
git reset -q 2>/dev/null
cd /verif && ./bin/vcheck run $prop "$@"; rc=$?
git -C /repo checkout -- .
echo "exit=$rc"
exit $rc
