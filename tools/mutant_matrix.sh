#!/bin/bash
# Runs every seeded change against the quick check of its own property (and of related properties),
# in scratch worktrees; writes /verif/seeded/RESULTS.tsv  (mutant, property, exit, first violation line)
cd /verif
declare -A extra
extra[C13-m3]="C18"; extra[C07-m3]="C05"; extra[C05-m2]="C11"; extra[C04-m2]="C11"; extra[C10-m2]="C09"; extra[C19-m1]="C02"; extra[C20-m3]="C17"; extra[C02-m5]="C19"; extra[C04-m5]="C11"; extra[C04-m4]="C11"; extra[C07-m5]="C05"
out=/verif/seeded/RESULTS.tsv
echo -e "mutant\tproperty\texit\tdetail" > $out
for d in seeded/C*-m*/; do
  name=$(basename $d); own=${name%%-*}
  for prop in $own ${extra[$name]}; do
    grep -q "\"$prop\"" MANIFEST.json || continue
    log=/var/tmp/mm-$name-$prop.log
    timeout 1500 tools/mutant_run.sh $name $prop > $log 2>&1
    rc=$(grep -o "exit=[0-9]*" $log | tail -1 | cut -d= -f2)
    det=$(grep -m1 "harness=" $log | sed 's/^ *//' | cut -c1-220)
    [ -z "$det" ] && det=$(grep -m1 -E "INCONCLUSIVE|SPURIOUS|PATCH DOES NOT APPLY" $log | cut -c1-160)
    echo -e "$name\t$prop\t$rc\t$det" >> $out
  done
done
echo MATRIX-DONE >> $out
