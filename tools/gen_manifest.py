#!/usr/bin/env python3
"""Regenerates /verif/MANIFEST.json from the table below (kept next to the registry in engine/registry.go)."""
import json
props=[json.loads(l) for l in open('/verif/properties.jsonl')]
ENV="GOFLAGS=-mod=mod GOPROXY=off GOSUMDB=off GOTOOLCHAIN=local"
TECH="bounded symbolic execution of the real Go code (go/ssa -> SMT-LIB2 bit-vector encoding written for this task), decided by SMT solvers (z3 5.1.0 / z3 4.8.12 / cvc5), counterexamples replayed natively"
claimed = {
 "C08": dict(
   text="Bounded model checking of the real trie code: testTrie.add/match are executed symbolically from their SSA and compared with a recursive glob reference for every pattern set (<=2 patterns x <=3 components over {a,b,*,**}) and every name (<=3 components); reachable panics and unwinding assertions are obligations too. The solver decides all inputs inside the bound at once; nothing is sampled.",
   note="Inside the bound only. Strings are drawn from a finite alphabet of constants; trusted: go/ssa lowering, the gosym encoder, the solvers, the glob reference in the harness. Not covered yet: @file parsing, unmatched-pattern reporting, known-failing/flaky conflict check inside run().",
   ref="7 (C08)"),
 "C09": dict(
   text="Bounded model checking of timeoutDelimitedReader.read and readDelimitedMessageRaw (real SSA, goroutine run at spawn, select with a slowest-timer model) against the reference of DESIGN.md Appendix B: every script of <=3/4 Read calls with symbolic (n, err) per call - 1-byte reads, reads ending exactly on the prefix boundary, (n>0, err), (0, nil) - every truncation point, oversize prefixes and every stall point.",
   note="Binary variant only; reader assumed to end/fail/complete within the stated number of calls; JSON variant (encoding/json), real timers and proto (un)marshalling are outside the claim.",
   ref="7 (C09)"),
 "C14": dict(
   text="Bounded model checking of tracingReader.Read/Close, dataTracer and builder (real SSA) against a one-shot reference event list: for every layout of <=2 enveloped messages (declared length <=2), every cut point, every partition of the body into 2 reads and every terminal behaviour (case-split, enumerated completely), with flags, payload bytes and Close outcome symbolic; asserts byte/count/error transparency, exact envelope flags/length, consecutive indices, partial final event, end-stream content decompressed exactly when the compressed flag is set, single body end.",
   note="Positions (lengths, cut, chunk sizes) are case-split rather than symbolic because symbolic slice offsets made the encoding intractable; decompressor is a contract stub; bytes.Buffer modelled on its fields; tracingResponseWriter.Write path and HTTP plumbing not covered yet.",
   ref="7 (C14)"),
}
checks=[]
for pid,c in claimed.items():
    checks.append({
      "property_id": pid,
      "quick_cmd": "./bin/vcheck run %s --tier quick" % pid,
      "thorough_cmd": "./bin/vcheck run %s --tier thorough" % pid,
      "evidence_file": "/verif/evidence/%s.json" % pid,
      "replay_cmd_template": "./bin/vcheck replay {path}",
      "engine": "gosym",
      "level_claimed": {"category":"model_checking","text":c["text"],"design_ref":c["ref"]},
      "level_note": c["note"],
      "technique": TECH,
    })
na_reason = {
 "C01": "whole-system runs over real sockets/TLS/HTTP stacks and RPC libraries for ~30k permutations: nothing a bounded SSA->SMT encoding can reach; stubbing the network and RPC libraries would leave nothing of the property",
}
na=[]
for p in props:
    if p["id"] in claimed: continue
    na.append({"property_id":p["id"],"reason":na_reason.get(p["id"],"check not built yet in this session (planned: DESIGN.md section 7); not claimed until a solver-based check runs clean on the unchanged tree")})
m={"version":1,
 "setup_cmd":"cd /verif/engine && %s go build -o /verif/bin/vcheck ." % ENV,
 "hooks":{"guard":"verif","enable":"harnesses (/verif/harness/**/zz_verif_*.go, //go:build verif) are injected with go/packages Overlay and `go test -overlay -tags verif`; nothing is committed into /repo for hooks","baseline_off_cmd":"cd /repo && %s go test -vet=off -count=1 ./..." % ENV,"source_commits":[],"add_only":True},
 "engines":[{"name":"gosym","path":"/verif/engine","serves_properties":sorted(claimed.keys()),"kind_free_text":"Go SSA -> SMT-LIB2 bounded symbolic executor (guarded path merging, BDD + SMT feasibility pruning, case-split worker pool), solver pool, native replay of counterexamples"}],
 "checks":checks,
 "notes":"All checks are solver-based bounded checks of the real code; see DESIGN.md. Inconclusive obligations (timeouts, unsupported SSA, bound too small) are printed and counted in evidence, never reported as violations and never counted as discharged.",
 "not_applicable":na}
json.dump(m,open('/verif/MANIFEST.json','w'),indent=1)
print("claimed:",sorted(claimed.keys()))
