#!/usr/bin/env python3
"""Regenerates /verif/MANIFEST.json from the table below (kept next to the registry in engine/registry.go)."""
import json
props=[json.loads(l) for l in open('/verif/properties.jsonl')]
ENV="GOFLAGS=-mod=mod GOPROXY=off GOSUMDB=off GOTOOLCHAIN=local"
TECH="bounded symbolic execution of the real Go code (go/ssa -> SMT-LIB2 bit-vector encoding written for this task), decided by SMT solvers (z3 5.1.0 / z3 4.8.12 / cvc5), counterexamples replayed natively"
claimed = {
 "C05": dict(
   text="Work-list and request-completion clauses: filterGRPCImplTestCases issues a marked copy exactly for the cases the gRPC peers support (2 permutations with symbolic protocol, HTTP version, codec, compression, TLS, raw request/response, every peer combination); testCaseFilter.apply keeps exactly the accepted names; and (harness shared with C11) every request handed to the client carries the server's actual host (default if empty), port, certificate, client credentials iff the instance uses them and the test-name header, while the server is started for exactly the instance's protocol, HTTP version and TLS/client-certificate mode, without modifying the test case definition.",
   note="The --max-servers bound, server lifetimes, termination of run() and goroutine interleavings between batches (semaphores, goroutines, OS processes) are not encodable and outside the claim; the order filter-then-mark inside run() is read off the source.",
   ref="7 (C05)"),
 "C07": dict(
   text="Bounded model checking of newTestCaseLibrary / expandSuite / expandCases / groupTestCases (real SSA): for one suite with symbolic directives (each relevant list empty or one entry, TLS / client-cert / GET / receive-limit reliance, Connect version mode, suite mode vs run mode), one test case of symbolic stream type and one symbolic config case: a permutation exists iff the specification admits it, misconfigured suites are rejected, the request carries the case's version, protocol, codec, compression and TLS markers with a default service and method, and it is grouped under exactly one matching server instance; generateTestCasePrefix gives two admitted config cases the same prefix iff they are the same case (0..2 entries per relevant list).",
   note="The 'all values' enum lists are bounded to two values per axis (natively too); literal spelling of names (enum names are models of the generated String methods), several suites/test cases and Go map iteration order are outside the claim.",
   ref="7 (C07)"),
 "C11": dict(
   text="Bounded model checking of runTestCasesForServer over the fault matrix (batch of 2): start error, stdin write/close error, response read error, missing certificate under TLS, server exit before send k, and per send a client that refuses, answers (response / error result / callback error / neither) or answers later (while the runner waits, or never): every case ends with exactly one classified outcome (setup error vs own verdict), all outcomes are present when the function returns on the non-crash paths, the server is asked to stop; reference-server stderr lines are attributed to the named case (also the unterminated last line, also messages containing ': ') and everything else is passed through; x-expect-* headers are added.",
   note="Sequentialised schedules (the client delivers outstanding answers while the runner waits in WaitGroup.Wait); OS processes, real pipes and timing are outside; delimited I/O and bufio are stubbed in the engine and real natively.",
   ref="7 (C11)"),
 "C15": dict(
   text="Transparency and frame reassembly: tracingHTTP2Conn.Read/Write/Close return exactly the wrapped connection's (n, err) and bytes for every n, nil/error/timeout, client and server side, and hand exactly those bytes (also when returned together with an error) to the frame tracer of their direction; http2FrameTracer.trace cuts a stream of 2 frames (declared payload 0..3, case split) delivered in any 3 chunks (case split, enumerated completely) into frames: after every chunk the buffered header bytes, declared length and bytes seen equal the reference cut and one frame is emitted per complete frame; flags, stream ids and payloads symbolic. Attribution: handleFrame for every well-formed sequence of <=4 decoded frames on two streams of a server-side connection (client/server HEADERS incl. trailers, RST_STREAM from either side, GOAWAY with last stream id 0/1/3/5, END_STREAM symbolic, stream with or without test name): exactly one trace per named stream that ended, was reset or was cut off, ending the way the stream did, with its own response and trailers; none for streams at or below the GOAWAY id or without a name; no panic. Retry: http2RetryCollector for every well-formed history of <=5 operations on two names - a refused attempt that is retried is not delivered, the retry is.",
   note="HPACK and http2.Framer are third-party and outside the claim (handleFrame is driven with decoded frames); DATA frames are not driven at that level (x/net's DataFrame cannot be built outside its package; payload tracing is C14's subject); the 3 s retry timer is a stub whose firing is an operation of the harness; the client side of newBuilder (httptrace, reflection) and real goroutine interleavings of the two directions are outside; request direction of the frame cutter (client preface) not covered.",
   ref="7 (C15)"),
 "C20": dict(
   text="Wrapper-state clause for the pooled zstd decompressor: every history of 4 operations from {Reset(input 1), Reset(input 2), Read, Close}: a closed library decoder is never used again, Reset after Close yields a usable instance that decodes the new input, Read decodes the input of the last Reset, Read without input yields nothing. Failure clause for the pooled deflate decompressor: every history of 4 operations from {Reset(valid 1), Reset(valid 2), Reset(corrupt header), Reset(truncated body), Read, Close}: a Reset with a valid stream always succeeds and decodes that stream, whatever failed before. Naming clause for the wire tracer: tracer.GetDecompressor maps every encoding name (any letter case) to the algorithm of that name and an unknown name to none (content treated as empty).",
   note="The compression algorithms are third-party loops (the family's weak target): the library decoders (klauspost/zstd, compress/zlib) are contract stubs in the engine that keep the documented stickiness of a failed reader, and the real libraries natively; round trips and bit-level malformed input, the gzip / brotli / snappy wrappers, and the name mappings inside the reference peers' connect options are outside the claim.",
   ref="7 (C20)"),
 "C13": dict(
   text="Bounded model checking of the non-JSON wire examiners: checkGRPCStatus accepts grpc-status 1..16 with grpc-message = PercentEncodeMessage(m) for every byte string m of length <=3 and flags raw non-printable bytes and dangling escapes; the field-name / field-value validators equal the RFC 7230 tables for every string of length <=2; examineGRPCEndStream never panics on any string of length <=5 over {a, A, colon, space, CR, LF} (line structure case-split, bytes symbolic), gives no feedback and the right map for a well-formed line, and flags each named malformation; checkGRPCStatus accepts a grpc-status / grpc-message / grpc-status-details-bin trio exactly when the three agree (codes 0..16, ASCII messages <=2 bytes, 0..1 details); examineWireDetails hands each part of the response to the right examiner and flags HTTP trailers exactly outside gRPC (9 content types x status x trailer x body data x end-stream x trace error).",
   note="Connect JSON examiners (encoding/json) are outside the claim; base64 and protobuf decoding of grpc-status-details-bin are contract stubs in the engine (real natively), padded base64 is not covered; in the dispatch harness the four examiners are recorders (natively the real ones run on well-formed contents); std-lib string helpers are bounded Go models.",
   ref="7 (C13)"),
 "C16": dict(
   text="Bounded model checking of Tracer over atomic-step schedules: every sequence of 4 operations from {Init, Complete, Clear, Await} over two test names, where a blocked Await lets the remaining operations run (nested waiters included) and ends with its context when nothing is left; each waiter gets precisely the first trace completed for the slot it waited on (before or after the wait began), waits on cleared / never-initialised names fail, a wait never outlives its context.",
   note="Each operation is atomic under the tracer's lock (that is how the code is written); data races and interleavings inside a step need a memory-model checker and are outside the claim; the builder's exactly-once completion is not covered yet.",
   ref="7 (C16)"),
 "C17": dict(
   text="Bounded model checking of the raw-payload encoders and the raw response writer: WriteRawStreamContents/WriteRawMessageContents (identity) write flags, big-endian explicit-or-computed length and payload per item for <=2 items with any flags 0..300, any uint32 explicit length, payload <=2 symbolic bytes, never close the destination, reject flags > 255, and are invertible; WriteRawMessageContents applies the per-item compression (8 compression values x absent/binary/message/text data x payload <=2 bytes: nothing for absent data, the compressed form - also of present-but-empty data - otherwise, an error for an unknown compression); rawResponseWriter arbitration for every sequence of <=4 operations; finish() sends the given status (200 if unset), restores earlier-middleware headers, sends raw headers in order, declares and sends trailers, and exactly the given body.",
   note="The compression algorithms are third-party code (C20): in the engine they are a framing model (header byte, payload, trailer byte on Close), natively the real ones; rawRequestSender.RoundTrip (net/http, io.Pipe, goroutines, net/url) is outside the claim.",
   ref="7 (C17)"),
 "C18": dict(
   text="Bounded model checking of the byte kernels and the codec wiring: PercentEncodeMessage yields printable ASCII and is inverted by the reference decoder for every byte string of length <=3; header list -> gRPC metadata -> header list preserves the key up to case and the values in order with -bin values coded exactly once; a header list that names a header twice (also differing only in letter case) hands gRPC all its values in order, on the server side (ConvertProtoHeaderToMetadata) and on the client side (AppendToOutgoingContext + grpc metadata read back), with -bin values decoded exactly once; StrictProtoCodec / StrictJSONCodec decode what Marshal, MarshalAppend and MarshalStable produce and reject unknown fields; test-case error -> connect.Error -> test-case error (real connect-go code executed from its SSA) preserves code, message and every detail's type URL and bytes (0..2 details, zero-length values included).",
   note="base64 and proto/protojson are inverse-pair contract stubs in the engine (real libraries natively), so the libraries' own losslessness is outside the claim; the grpc status pair (grpc-go internals) is not encoded.",
   ref="7 (C18)"),
 "C02": dict(
   text="Crash-freedom clause (last sentence) plus the structural part of the derivation: populateExpectedResponse (unary and stream variants, real SSA) for every stream type 0..6, 0..3 request messages of any of the 4 request types or undecodable, response definition present or not, 0..3 response_data items, error present or not: no reachable panic, error-or-expectation, one payload per response item in order, request echo per stream type (full-duplex ping-pong, including more responses than requests); the response definition may be carried by request message 0, 1 or 2 and the expectation reflects the first message's definition only (as both reference servers do).",
   note="The agreement clause (derived expectation == what the reference peers produce) needs the whole RPC stack and is outside the claim (same reason as C01); Any (un)marshalling is a table-lookup stub in the engine and real natively; expandRequestData's crash freedom is covered by the C19 harness.",
   ref="7 (C02)"),
 "C12": dict(
   text="Bounded model checking of the reference server's request checks: (a) extractTimeout for both protocols: case split on digit count (1..11 / 1..9) and unit, all digits symbolic: accepted iff within the digit limit with a known unit, exact product with saturation on int64 overflow (hours), header removed, feedback iff rejected; (b) checkHTTPVersion/Protocol/Codec/Compression/TLS on the request of a conformant client over the full expected x actual matrix: feedback iff the aspect differs, naming the test case.",
   note="int64(Duration.Hours()) etc. use an integer summary of the float computation (justified by a separate FP lemma, DESIGN.md section 4); leading signs and redundant leading zeros are outside the claim (the specs count digits, the code compares values); the middleware closure (duplicate request, trailers, missing name) is not encoded.",
   ref="7 (C12)"),
 "C19": dict(
   text="Padding clause: expandRequestData on the wire-size model size(n) = other + (n=0 ? 0 : 1+varint(n)+n): for every initial padding length < 2^22, every int32 offset and other-size 0/4..40: no reachable panic, on success the size is exactly limit+offset and only the padding changed, at most two adjustments; for typical directives an error means the size is unreachable. One genuine deviation (reachable sizes rejected when a third adjustment would be needed) is recorded as a known finding.",
   note="Protobuf reflection / proto.Size / Any are replaced by the size model in the engine (natively the real code runs on a real UnaryRequest with the same sizes); padding bytes are length-abstracted; sharpness of the limit inside connect-go/grpc-go (second sentence) is outside the claim.",
   ref="7 (C19)"),
 "C03": dict(
   text="Bounded model checking of the real comparison code in results.go: comma-joining laws of canonicalizeHeaderVals (strings <=3 bytes), checkHeaders against a set-theoretic reference (<=2 headers per side, mixed-case names, joined/split values), checkError against the documented table (<=2 details per side, every position), the echoed-timeout window for all int64 values, checkPayloads (number, order, bytes, echoed requests per payload), and assert() with the header/trailer merging leniency and HTTP status rule - each as an iff between 'no discrepancy reported' and the reference predicate.",
   note="String alphabets are small constant sets; anypb/protocmp are contract stubs (equal iff type URL and bytes equal), natively replaced by real messages; discrepancy texts are not checked; payload bytes and the request echo are compared on 1-byte payloads and two distinct request messages.",
   ref="7 (C03)"),
 "C04": dict(
   text="Bounded model checking of testResults.report (with processSidebandInfoLocked): for <=2 named cases with every combination of outcome {pass, failure, could-not-run}, setup-error, known-failing, known-flaky, peer feedback and 0..2 selected cases without any outcome, the return value, the FAILED lines and the printed totals equal the reference classification; plus (C10 harness H10a) a finished client process is reported as not running.",
   note="Run()/run() (`report() && err == nil`, processes, goroutines) are read off the source, not encoded; printer is a recording stub; message layout (indent) is cut.",
   ref="7 (C04)"),
 "C06": dict(
   text="Bounded model checking of resolveFeatures, computeCasesFromFeatures and resolveCase (real SSA, nine nested range loops) against the declarative membership formula written from config.proto: for every Features message with axis lists of length <=2 (arbitrary repeated/unordered elements) and 7 tri-state flags, an arbitrary probe case (all 10 fields symbolic) is in the computed set iff the specification admits it; defaults, contradiction errors and validity of every member are asserted too; include/exclude entries (every field set or omitted) are checked one and two in sequence against symbolic features; parseConfig itself (union, difference, empty-set rejection) for features with one entry per axis list, <=1 include and <=1 exclude entry, supports_tls_client_certs unset or false (case split on entry counts and the TLS tri-state).",
   note="parseConfig with multi-valued axis lists, client certificates or several entries per list is outside the claim (measured: every query unknown at 400 s); resolveCase is checked directly for those. Only z3 5.1.0 decides the membership queries within minutes (z3 4.8.12 and cvc5 time out), so they are not cross-checked.",
   ref="7 (C06)"),
 "C10": dict(
   text="Bounded model checking of clientProcessRunner (sendRequest, consumeOutput, waitForResponses, runClient) over sequentialised schedules: <=2 sends (duplicate names, write failures) issued before, during (at every read) or after the output reader, client output of <=2 responses (known/unknown/repeated names) ending in clean EOF or an error; asserts exactly-once callbacks with the right response or an error, refusal after failure, nothing left pending, waitForResponses reporting abnormal ends, isRunning() false after the process ended.",
   note="Atomic-step schedules only (no interleaving inside a lock-protected section, no data races); delimited I/O is stubbed in the engine and realised with real bytes natively; real pipes/processes are outside.",
   ref="7 (C10)"),
 "C08": dict(
   text="Bounded model checking of the real trie code: testTrie.add/match are executed symbolically from their SSA and compared with a recursive glob reference for every pattern set (<=2 patterns x <=3 components over {a,b,*,**}) and every name (<=3 components); reachable panics and unwinding assertions are obligations too. The solver decides all inputs inside the bound at once; nothing is sampled.",
   note="Inside the bound only. Strings are drawn from a finite alphabet of constants; trusted: go/ssa lowering, the gosym encoder, the solvers, the glob reference in the harness. Not covered yet: @file parsing, unmatched-pattern reporting, known-failing/flaky conflict check inside run().",
   ref="7 (C08)"),
 "C09": dict(
   text="Bounded model checking of timeoutDelimitedReader.read and readDelimitedMessageRaw (real SSA, goroutine run at spawn, select with a slowest-timer model) against the reference of DESIGN.md Appendix B: every script of <=3/4 Read calls with symbolic (n, err) per call - 1-byte reads, reads ending exactly on the prefix boundary, (n>0, err), (0, nil) - every truncation point, oversize prefixes and every stall point; plus the peer-side binary codec (protoEncoder / protoDecoder): what was encoded is decoded back in order for 0..2 messages of 0..2 bytes, with the stream cut after any number of bytes and (for one message) delivered in chunks of 1..4 bytes per read: a clean end only between messages, an unexpected end otherwise.",
   note="Binary variant only; reader assumed to end/fail/complete within the stated number of calls; JSON variant (encoding/json's Decoder) and real timers are outside the claim; proto (un)marshalling is a contract stub in the codec harness (real natively); the peer-side decoder has no size limit to check.",
   ref="7 (C09)"),
 "C14": dict(
   text="Bounded model checking of tracingReader.Read/Close, dataTracer and builder (real SSA) against a one-shot reference event list: for every layout of <=2 enveloped messages (declared length <=2), every cut point, every partition of the body into 2 reads and every terminal behaviour (case-split, enumerated completely), and one message of declared length <=3 in every partition into 3 reads, with flags, payload bytes and Close outcome symbolic; asserts byte/count/error transparency, exact envelope flags/length, consecutive indices, partial final event, end-stream content decompressed exactly when the compressed flag is set, single body end; plus tracingResponseWriter.Write with a short / failing last write: the trace shows what was actually written.",
   note="Positions (lengths, cut, chunk sizes) are case-split rather than symbolic because symbolic slice offsets made the encoding intractable; decompressor is a contract stub; bytes.Buffer modelled on its fields; WriteHeader / trailer snapshotting of the response writer and the HTTP plumbing (RoundTripper/Handler) are not covered.",
   ref="7 (C14)"),
}
checks=[]
for pid,c in claimed.items():
    checks.append({
      "property_id": pid,
      "quick_cmd": "./bin/vcheck run %s --tier quick" % pid,
      "thorough_cmd": "./bin/vcheck run %s --tier thorough" % pid,
      "evidence_file": "/verif/evidence/%s.json" % pid,
      "replay_cmd_template": "./bin/vcheck replay {path}",
      "engine": "gosym",
      "level_claimed": {"category":"model_checking","text":c["text"],"design_ref":c["ref"]},
      "level_note": c["note"],
      "technique": TECH,
    })
na_reason = {
 "C01": "whole-system runs over real sockets/TLS/HTTP stacks and RPC libraries for ~30k permutations: nothing a bounded SSA->SMT encoding can reach; stubbing the network and RPC libraries would leave nothing of the property",
}
na=[]
for p in props:
    if p["id"] in claimed: continue
    na.append({"property_id":p["id"],"reason":na_reason.get(p["id"],"check not built yet in this session (planned: DESIGN.md section 7); not claimed until a solver-based check runs clean on the unchanged tree")})
m={"version":1,
 "setup_cmd":"cd /verif/engine && %s go build -o /verif/bin/vcheck ." % ENV,
 "hooks":{"guard":"verif","enable":"harnesses (/verif/harness/**/zz_verif_*.go, //go:build verif) are injected with go/packages Overlay and `go test -overlay -tags verif`; nothing is committed into /repo for hooks","baseline_off_cmd":"cd /repo && %s go test -vet=off -count=1 ./..." % ENV,"source_commits":[],"add_only":True},
 "engines":[{"name":"gosym","path":"/verif/engine","serves_properties":sorted(claimed.keys()),"kind_free_text":"Go SSA -> SMT-LIB2 bounded symbolic executor (guarded path merging, BDD + SMT feasibility pruning, case-split worker pool), solver pool, native replay of counterexamples"}],
 "checks":checks,
 "notes":"All checks are solver-based bounded checks of the real code; see DESIGN.md. Inconclusive obligations (timeouts, unsupported SSA, bound too small) are printed and counted in evidence, never reported as violations and never counted as discharged.",
 "not_applicable":na}
json.dump(m,open('/verif/MANIFEST.json','w'),indent=1)
print("claimed:",sorted(claimed.keys()))
