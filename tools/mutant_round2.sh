#!/bin/bash
# runs the round-2 seeded changes (m4, m5) against the quick check of their own property (+ related); -> seeded/RESULTS2.tsv
cd /verif
declare -A extra
extra[C02-m5]="C19"; extra[C04-m5]="C11"; extra[C04-m4]="C11"; extra[C20-m5]="C14"; extra[C07-m5]="C05"
out=/verif/seeded/RESULTS2.tsv
echo -e "mutant\tproperty\texit\tdetail" > $out
for d in seeded/C*-m[45]/; do
  name=$(basename $d); own=${name%%-*}
  for prop in $own ${extra[$name]}; do
    [ "$prop" = "$own" ] && [ -n "${seen[$name-$prop]}" ] && continue
    log=/var/tmp/mm2-$name-$prop.log
    timeout 1500 tools/mutant_run.sh $name $prop > $log 2>&1
    rc=$(grep -o "exit=[0-9]*" $log | tail -1 | cut -d= -f2)
    det=$(grep -m1 "harness=" $log | sed 's/^ *//' | cut -c1-220)
    [ -z "$det" ] && det=$(grep -m1 -E "INCONCLUSIVE|SPURIOUS|PATCH DOES NOT APPLY" $log | cut -c1-160)
    echo -e "$name\t$prop\t$rc\t$det" >> $out
  done
done
echo ROUND2-DONE >> $out
