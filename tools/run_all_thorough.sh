#!/bin/bash
# runs every registered thorough check (evidence goes to /var/tmp/thor-out, not to /verif/evidence) and prints one summary line each
cd /verif
for p in $(python3 -c "
import json
m=json.load(open('MANIFEST.json'))
print(' '.join(c['property_id'] for c in m['checks']))") "$@"; do
  s=$(date +%s)
  out=$(VERIF_OUT=/var/tmp/thor-out timeout 3000 ./bin/vcheck run $p --tier thorough 2>&1 | tail -1)
  echo "$out rc=$? $(( $(date +%s) - s ))s"
done
