#!/bin/bash
# runs every registered quick check and prints one summary line each
cd /verif
for p in $(python3 -c "
import json
m=json.load(open('MANIFEST.json'))
print(' '.join(c['property_id'] for c in m['checks']))") "$@"; do
  s=$(date +%s)
  out=$(timeout 1800 ./bin/vcheck run $p 2>&1 | tail -1)
  echo "$out rc=$?"
done
