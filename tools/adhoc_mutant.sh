#!/bin/bash
# usage: adhoc_mutant.sh <file-rel> <sed-expr> <prop> [vcheck args]   (scratch worktree; /repo untouched)
f=$1; expr=$2; prop=$3; shift 3
wt=/var/tmp/adhoc-$$; rm -rf $wt; git -C /repo worktree prune
git -C /repo worktree add -q --detach $wt HEAD || exit 9
sed -i "$expr" $wt/$f
git -C $wt diff --stat | tail -1
(cd $wt && GOFLAGS=-mod=mod GOPROXY=off go build ./... ) || { echo BUILDFAIL; git -C /repo worktree remove --force $wt; exit 9; }
cd /verif && VERIF_REPO=$wt VERIF_OUT=/var/tmp/adhoc-out ${VCHECK:-./bin/vcheck} run $prop "$@" 2>&1 | grep -E "VIOLATION|SPURIOUS|INCONCL|property " | cut -c1-220 | head -5
git -C /repo worktree remove --force $wt
