#!/bin/bash
# trial of the thorough tier of the given properties (output dir outside /verif/evidence); prints wall time per property
cd /verif
for p in "$@"; do
  s=$(date +%s)
  out=$(VERIF_OUT=/var/tmp/thor-out timeout 5400 ./bin/vcheck run $p --tier thorough 2>&1 | grep -E "^property|INCONCL|VIOLATION|SPURIOUS" | cut -c1-220 | tail -6)
  e=$(date +%s)
  echo "== $p $((e-s))s"; echo "$out"
done
echo THOROUGH-DONE
