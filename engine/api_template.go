package main

// apiTemplate is injected (by overlay) into every package that holds harnesses. The symbolic engine intercepts these
// functions by name; the bodies below are what runs natively when a solver model is replayed against the real code.
const apiTemplate = `//go:build verif

package __PKG__

import (
	"encoding/json"
	"fmt"
	"os"
)

type vReplayData struct {
	Harness string           ` + "`json:\"harness\"`" + `
	Values  map[string]int64 ` + "`json:\"values\"`" + `
}

var vReplay = func() *vReplayData {
	d := &vReplayData{Values: map[string]int64{}}
	if p := os.Getenv("VERIF_REPLAY"); p != "" {
		b, err := os.ReadFile(p)
		if err != nil {
			panic(err)
		}
		if err := json.Unmarshal(b, d); err != nil {
			panic(err)
		}
	}
	return d
}()

type vAssertFail struct{ label string }
type vAssumeFail struct{}
type vBlocked struct{}

func vVal(key string) int64 { return vReplay.Values[key] }
func vClamp(v, lo, hi int64) int64 {
	if v < lo {
		return lo
	}
	if v > hi {
		return hi
	}
	return v
}

func vBool(name string) bool                         { return vVal(name) != 0 }
func vBoolAt(name string, idx, n int) bool           { return vVal(fmt.Sprintf("%s#%d", name, idx)) != 0 }
func vInt(name string, lo, hi int) int               { return int(vClamp(vVal(name), int64(lo), int64(hi))) }
func vIntAt(name string, idx, n, lo, hi int) int {
	return int(vClamp(vVal(fmt.Sprintf("%s#%d", name, idx)), int64(lo), int64(hi)))
}
func vByte(name string) byte                         { return byte(vVal(name)) }
func vU8(name string) uint8                          { return uint8(vVal(name)) }
func vByteAt(name string, idx, n int) byte           { return byte(vVal(fmt.Sprintf("%s#%d", name, idx))) }
func vByteOf(name string, alphabet string) byte      { return vOf(byte(vVal(name)), alphabet) }
func vByteOfAt(name string, idx, n int, alphabet string) byte {
	return vOf(byte(vVal(fmt.Sprintf("%s#%d", name, idx))), alphabet)
}
func vOf(b byte, alphabet string) byte {
	for i := 0; i < len(alphabet); i++ {
		if alphabet[i] == b {
			return b
		}
	}
	return alphabet[0]
}
func vI16(name string) int16   { return int16(vVal(name)) }
func vU16(name string) uint16  { return uint16(vVal(name)) }
func vI32(name string) int32   { return int32(vVal(name)) }
func vU32(name string) uint32  { return uint32(vVal(name)) }
func vI64(name string) int64   { return vVal(name) }
func vU64(name string) uint64  { return uint64(vVal(name)) }
func vI64At(name string, idx, n int) int64 { return vVal(fmt.Sprintf("%s#%d", name, idx)) }

func vBytes(name string, maxLen int) []byte {
	n := int(vClamp(vVal(name+".len"), 0, int64(maxLen)))
	b := make([]byte, n)
	for i := range b {
		b[i] = byte(vVal(fmt.Sprintf("%s[%d]", name, i)))
	}
	return b
}
func vBytesOf(name string, maxLen int, alphabet string) []byte {
	b := vBytes(name, maxLen)
	for i := range b {
		b[i] = vOf(b[i], alphabet)
	}
	return b
}
func vString(name string, maxLen int) string                    { return string(vBytes(name, maxLen)) }
func vStringOf(name string, maxLen int, alphabet string) string { return string(vBytesOf(name, maxLen, alphabet)) }

func vAssume(c bool) {
	if !c {
		panic(vAssumeFail{})
	}
}
func vAssert(c bool, label string) {
	if !c {
		panic(vAssertFail{label})
	}
}
func vReach(label string) {}
func vSkipCase(c bool) {
	if c {
		panic(vAssumeFail{})
	}
}
func vTrace(label string, b bool) {}
func vNative() bool       { return true }
func vBlock()             { panic(vBlocked{}) }
func vRunSpawned(i int)   {}
func vSpawnedCount() int  { return 0 }

// vRunNative runs one harness and prints a machine-readable result line.
func vRunNative(h func()) (result string) {
	defer func() {
		if r := recover(); r != nil {
			switch x := r.(type) {
			case vAssertFail:
				result = "assert-failed " + x.label
			case vAssumeFail:
				result = "assume-violated"
			case vBlocked:
				result = "blocked"
			default:
				result = fmt.Sprintf("panic %v", r)
			}
		}
	}()
	h()
	return "ok"
}
`

const replayTestTemplate = `//go:build verif

package __PKG__

import (
	"fmt"
	"os"
	"strings"
	"testing"
)

func TestVerifReplay(t *testing.T) {
	hs := map[string]func(){
__HARNESSES__
	}
	name := os.Getenv("VERIF_HARNESS")
	if name == "" {
		name = vReplay.Harness
	}
	h, ok := hs[name]
	if !ok {
		t.Fatalf("unknown harness %q", name)
	}
	if sw := os.Getenv("VERIF_SWEEP"); sw != "" {
		// native self-test of a harness: every combination of the listed small-range nondets is run against the
		// real code (sanity check of the native environment of a harness; not the deciding step of any check)
		type dim struct {
			name   string
			lo, hi int64
		}
		var dims []dim
		for _, part := range strings.Split(sw, ",") {
			var d dim
			eq := strings.Index(part, "=")
			dots := strings.Index(part, "..")
			d.name = part[:eq]
			fmt.Sscanf(part[eq+1:dots], "%d", &d.lo)
			fmt.Sscanf(part[dots+2:], "%d", &d.hi)
			dims = append(dims, d)
		}
		n, bad := 0, 0
		var rec func(i int)
		rec = func(i int) {
			if i == len(dims) {
				n++
				if res := vRunNative(h); res != "ok" && res != "assume-violated" {
					bad++
					if bad <= 5 {
						fmt.Printf("VERIF-SWEEP-FAIL: %v %s\n", vReplay.Values, res)
					}
				}
				return
			}
			for v := dims[i].lo; v <= dims[i].hi; v++ {
				vReplay.Values[dims[i].name] = v
				rec(i + 1)
			}
		}
		rec(0)
		fmt.Printf("VERIF-RESULT: sweep %d combinations, %d failing\n", n, bad)
		return
	}
	res := vRunNative(h)
	fmt.Printf("VERIF-RESULT: %s\n", res)
}
`
