package main

import "time"

// Minimal ROBDD used only to decide "is this guard satisfiable?" during unrolling.
// Atoms are Boolean variables and hash-consed non-Boolean predicates (treated as independent:
// a guard reported unsatisfiable is unsatisfiable; some unsatisfiable guards may be missed).
// It prunes dead work only; property verdicts come from the SMT solver.

type bddNode struct{ v, lo, hi int }

var (
	bddNodes    = []bddNode{{-1, 0, 0}, {-1, 1, 1}} // 0 = false, 1 = true
	bddUnique   = map[bddNode]int{}
	bddVarOf    = map[int]int{} // term id -> var index
	bddMemo     = map[int]int{} // term id -> bdd (-1 = gave up)
	bddApply    = map[[3]int]int{}
	bddBudget   = 3_000_000 // total nodes before the tables are reset
	bddPerCall  = 60_000    // new nodes one query may create before it gives up (answer: "may be feasible")
	bddCallLimit int
	bddOps, bddOpLimit int
	bddGaveUp   int
	bddDisabled bool
)

type bddOverflow struct{}

func bddMk(v, lo, hi int) int {
	if lo == hi {
		return lo
	}
	n := bddNode{v, lo, hi}
	if id, ok := bddUnique[n]; ok {
		return id
	}
	if len(bddNodes) > bddCallLimit {
		panic(bddOverflow{})
	}
	bddNodes = append(bddNodes, n)
	bddUnique[n] = len(bddNodes) - 1
	return len(bddNodes) - 1
}

func bddVar(t *Term) int {
	v, ok := bddVarOf[t.id]
	if !ok {
		v = len(bddVarOf)
		bddVarOf[t.id] = v
	}
	return bddMk(v, 0, 1)
}

func bddIte(f, g, h int) int {
	if f == 1 {
		return g
	}
	if f == 0 {
		return h
	}
	if g == h {
		return g
	}
	if g == 1 && h == 0 {
		return f
	}
	key := [3]int{f, g, h}
	if r, ok := bddApply[key]; ok {
		return r
	}
	bddOps++
	if bddOps > bddOpLimit {
		panic(bddOverflow{})
	}
	top := bddNodes[f].v
	for _, x := range []int{g, h} {
		if x > 1 && bddNodes[x].v < top {
			top = bddNodes[x].v
		}
	}
	cof := func(x int, hi bool) int {
		if x <= 1 || bddNodes[x].v != top {
			return x
		}
		if hi {
			return bddNodes[x].hi
		}
		return bddNodes[x].lo
	}
	r := bddMk(top, bddIte(cof(f, false), cof(g, false), cof(h, false)), bddIte(cof(f, true), cof(g, true), cof(h, true)))
	bddApply[key] = r
	return r
}

func toBDD(t *Term) int {
	if r, ok := bddMemo[t.id]; ok {
		if r < 0 {
			panic(bddOverflow{})
		}
		return r
	}
	var r int
	switch t.op {
	case "true":
		r = 1
	case "false":
		r = 0
	case "not":
		r = bddIte(toBDD(t.args[0]), 0, 1)
	case "and":
		r = 1
		for _, a := range t.args {
			r = bddIte(r, toBDD(a), 0)
			if r == 0 {
				break
			}
		}
	case "or":
		r = 0
		for _, a := range t.args {
			r = bddIte(r, 1, toBDD(a))
			if r == 1 {
				break
			}
		}
	case "ite":
		r = bddIte(toBDD(t.args[0]), toBDD(t.args[1]), toBDD(t.args[2]))
	case "=":
		if t.args[0].w == 0 {
			a, b := toBDD(t.args[0]), toBDD(t.args[1])
			r = bddIte(a, b, bddIte(b, 0, 1))
		} else {
			r = bddVar(t)
		}
	default:
		r = bddVar(t)
	}
	bddMemo[t.id] = r
	return r
}

var bddSecs float64
var bddMaxSecs = 4.0
var bddCalls int

func safeBDD(t *Term) (r int) {
	if bddDisabled {
		return -1
	}
	if bddSecs > bddMaxSecs {
		bddDisabled = true
		return -1
	}
	t0 := time.Now()
	bddCalls++
	defer func() { bddSecs += time.Since(t0).Seconds() }()
	if m, ok := bddMemo[t.id]; ok && m < 0 {
		return -1
	}
	if len(bddNodes) > bddBudget {
		bddReset()
	}
	bddCallLimit = len(bddNodes) + bddPerCall
	bddOpLimit = bddOps + 300_000
	if len(bddApply) > 8_000_000 {
		bddReset()
	}
	defer func() {
		if x := recover(); x != nil {
			if _, ok := x.(bddOverflow); ok {
				bddGaveUp++
				bddMemo[t.id] = -1
				r = -1
				return
			}
			panic(x)
		}
	}()
	return toBDD(t)
}

// feasible reports whether the Boolean term may be satisfiable.
func feasible(t *Term) bool {
	if t == False {
		return false
	}
	if t == True {
		return true
	}
	return safeBDD(t) != 0
}

// prune returns False for infeasible guards, True for valid ones, else the term itself.
func prune(t *Term) *Term {
	if t == False || t == True {
		return t
	}
	switch safeBDD(t) {
	case 0:
		return False
	case 1:
		return True
	}
	return t
}


func bddReset() {
	bddNodes = []bddNode{{-1, 0, 0}, {-1, 1, 1}}
	bddUnique = map[bddNode]int{}
	neg := map[int]int{}
	for k, v := range bddMemo {
		if v < 0 {
			neg[k] = v
		}
	}
	bddMemo = neg
	bddApply = map[[3]int]int{}
	bddResets++
}

var bddResets int
