package main

import (
	"encoding/json"
	"flag"
	"fmt"
	"go/ast"
	"os"
	"os/exec"
	"path/filepath"
	"regexp"
	"runtime/debug"
	"runtime/pprof"
	"sort"
	"strconv"
	"strings"
	"time"

	"golang.org/x/tools/go/packages"
	"golang.org/x/tools/go/ssa"
	"golang.org/x/tools/go/ssa/ssautil"
)

var (
	repoDir  = "/repo"
	verifDir = "/verif"
	workDir  = "/verif/.work"
	outDir   = "/verif"
	verbose  = os.Getenv("VERIF_VERBOSE") != ""
)

type loaded struct {
	prog  *ssa.Program
	pkg   *ssa.Package
	ppkg  *packages.Package
	files []string // harness files (real paths)
	pkgName string
	relPkg  string
	directives []directive
	loadSecs float64
}

type directive struct {
	kind   string // replace | noop
	target string
	model  string
}

func harnessFiles(relPkg string) []string {
	fs, _ := filepath.Glob(filepath.Join(srcDir(), "harness", relPkg, "*.go"))
	sort.Strings(fs)
	return fs
}

func pkgNameOf(file string) string {
	b, _ := os.ReadFile(file)
	m := regexp.MustCompile(`(?m)^package\s+(\w+)`).FindSubmatch(b)
	if m == nil {
		return ""
	}
	return string(m[1])
}

func goEnv() []string {
	env := os.Environ()
	env = append(env, "GOFLAGS=-mod=mod", "GOPROXY=off", "GOSUMDB=off", "GOTOOLCHAIN=local", "GOWORK=off")
	return env
}

// overlayFiles returns virtual path -> content for a harness package.
func overlayFiles(relPkg string, withTest bool, harnessNames []string) (map[string][]byte, string) {
	files := harnessFiles(relPkg)
	if len(files) == 0 {
		fatal("no harness files for package %s", relPkg)
	}
	pkgName := pkgNameOf(files[0])
	ov := map[string][]byte{}
	for _, f := range files {
		b, _ := os.ReadFile(f)
		ov[filepath.Join(repoDir, relPkg, filepath.Base(f))] = b
	}
	ov[filepath.Join(repoDir, relPkg, "zz_verif_api.go")] = []byte(strings.ReplaceAll(apiTemplate, "__PKG__", pkgName))
	if mb, err := os.ReadFile(filepath.Join(srcDir(), "models", "models.go.tmpl")); err == nil {
		ov[filepath.Join(repoDir, relPkg, "zz_verif_models.go")] = []byte(strings.ReplaceAll(string(mb), "__PKG__", pkgName))
	}
	if withTest {
		var hs strings.Builder
		for _, h := range harnessNames {
			fmt.Fprintf(&hs, "\t\t%q: %s,\n", h, h)
		}
		t := strings.ReplaceAll(replayTestTemplate, "__PKG__", pkgName)
		t = strings.ReplaceAll(t, "__HARNESSES__", hs.String())
		ov[filepath.Join(repoDir, relPkg, "zz_verif_replay_test.go")] = []byte(t)
	}
	return ov, pkgName
}

func loadPkg(relPkg string) *loaded {
	t0 := time.Now()
	ov, pkgName := overlayFiles(relPkg, false, nil)
	cfg := &packages.Config{
		Mode:       packages.LoadAllSyntax,
		Dir:        repoDir,
		Overlay:    ov,
		BuildFlags: []string{"-tags=verif"},
		Env:        goEnv(),
	}
	pkgs, err := packages.Load(cfg, "./"+relPkg)
	if err != nil {
		fatal("load: %v", err)
	}
	if packages.PrintErrors(pkgs) > 0 {
		fatal("package %s (with harness overlay) has errors", relPkg)
	}
	prog, spkgs := ssautil.AllPackages(pkgs, ssa.InstantiateGenerics)
	pkg := spkgs[0]
	pkg.Build()
	l := &loaded{prog: prog, pkg: pkg, ppkg: pkgs[0], pkgName: pkgName, relPkg: relPkg, files: harnessFiles(relPkg)}
	// directives from harness sources
	for _, f := range pkgs[0].Syntax {
		fn := pkgs[0].Fset.Position(f.Pos()).Filename
		if !strings.HasPrefix(filepath.Base(fn), "zz_verif") {
			continue
		}
		for _, cg := range f.Comments {
			for _, c := range cg.List {
				l.parseDirective(c)
			}
		}
	}
	l.loadSecs = time.Since(t0).Seconds()
	return l
}

func (l *loaded) parseDirective(c *ast.Comment) {
	t := strings.TrimSpace(strings.TrimPrefix(c.Text, "//"))
	if !strings.HasPrefix(t, "verif:") {
		return
	}
	f := strings.Fields(t)
	switch f[0] {
	case "verif:replace":
		if len(f) == 3 {
			l.directives = append(l.directives, directive{"replace", f[1], f[2]})
		}
	case "verif:noop":
		if len(f) == 2 {
			l.directives = append(l.directives, directive{"noop", f[1], ""})
		}
	}
}

// HarnessSpec describes one harness entry point and its bounds.
type HarnessSpec struct {
	Pkg       string         // package path relative to /repo
	Func      string         // harness function name
	Unwind    int            // default loop bound
	UnwindFor map[string]int // per-function loop bounds
	Recur     int
	RecurFor  map[string]int
	Depth     int
	Cap       int
	TimeoutMs int
	JobSecs   int // hard wall-clock limit for one job (default 240 s)
	ExecSecs  int // budget for symbolic execution (default 300 s)
	Note      string // bounds in words
	GoQueue   bool
	AbstractBig bool // allocations of non-constant size become length-abstracted arrays (contents not tracked)
	FeasQueryMs int // time limit of one feasibility query in ms (default 1500; raise where pruning decides tractability)
	FeasSecs  int // budget (seconds) for solver feasibility queries during symbolic execution (default 40)
	HookLimit int // how many times vOnBlock may run at one blocking point
	QuickSolve bool // thorough tier: this harness is inherited from the quick list and keeps the quick solver settings
	UTF8Range bool // range over string: decode UTF-8 with symbolic offsets (default: ASCII only, a non-ASCII byte is a "limit" obligation)
	NoDedupe  bool // map range: do not de-duplicate keys (only for idempotent set-algebra loops, stated as a cut)
	Solvers   []string
	CaseGen   func() []map[string]int64 `json:"-"` // case split given as an explicit list (alternative to Split)
	CaseNote  string
	Split     []SplitDim // case split: these nondets are enumerated (one engine run per combination); everything else stays symbolic
	Only      []string // replacements restricted to this harness: "target=model"
	Without   []string // package-level replacements disabled for this harness
}

type HarnessResult struct {
	Spec       HarnessSpec
	Obligs     []*Oblig
	Assumes    int
	Blocks     int
	Edges      int
	Calls      int
	Terms      int
	Funcs      []string
	ExecSecs   float64
	SolveSecs  float64
	SolverTime float64
	Nondets    int
	Skipped    bool
	FeasQueries, FeasCuts int
	FeasSecs   float64
	Err        string
	eng        *Engine
}

func newEngine(l *loaded, hs HarnessSpec) *Engine {
	e := &Engine{
		prog: l.prog, hpkg: l.pkg, obIndex: map[string]*Oblig{}, loops: map[*ssa.Function]*loopForest{},
		maxDepth: 60, maxUnwind: 8, maxRecur: 8, defaultCap: 16,
		unwindFor: map[string]int{}, recurFor: map[string]int{},
		globals: map[*ssa.Global]*Object{}, nondets: map[string]*Nondet{}, replace: map[string]*ssa.Function{}, noops: map[string]bool{},
		active: map[*ssa.Function]int{}, funcsSeen: map[string]bool{}, fset: l.prog.Fset, initDone: map[*ssa.Package]bool{}, verifInitDone: map[*ssa.Package]bool{},
	}
	if hs.Unwind > 0 {
		e.maxUnwind = hs.Unwind
	}
	if hs.Recur > 0 {
		e.maxRecur = hs.Recur
	}
	if hs.Depth > 0 {
		e.maxDepth = hs.Depth
	}
	if hs.Cap > 0 {
		e.defaultCap = hs.Cap
	}
	for k, v := range hs.UnwindFor {
		e.unwindFor[k] = v
	}
	for k, v := range hs.RecurFor {
		e.recurFor[k] = v
	}
	if pf := os.Getenv("VERIF_PIN"); pf != "" {
		b, err := os.ReadFile(pf)
		if err != nil {
			fatal("%v", err)
		}
		var rf replayFile
		json.Unmarshal(b, &rf)
		e.pin = rf.Values
		if e.pin == nil {
			e.pin = map[string]int64{}
		}
	}
	e.maxTerms = 6_000_000
	e.deadline = time.Now().Add(5 * time.Minute)
	if hs.ExecSecs > 0 {
		e.deadline = time.Now().Add(time.Duration(hs.ExecSecs) * time.Second)
	}
	e.traceCalls = os.Getenv("VERIF_TRACE_CALLS") != ""
	e.noFeas = noFeasGlobal
	if len(pinCase) > 0 {
		e.pinCase = pinCase
	}
	if sf := os.Getenv("VERIF_SHADOW"); sf != "" {
		b, err := os.ReadFile(sf)
		if err != nil {
			fatal("%v", err)
		}
		var rf replayFile
		json.Unmarshal(b, &rf)
		e.shadow = rf.Values
		e.shadowAsg = map[string]uint64{}
		e.shadowMemo = map[int]uint64{}
		e.shadowLog, _ = os.Create(os.Getenv("VERIF_SHADOWLOG"))
	}
	e.goQueue = hs.GoQueue
	e.rangeNoDedupe = hs.NoDedupe
	e.rangeUTF8 = hs.UTF8Range
	e.feasBudget = 40
	if hs.FeasSecs > 0 {
		e.feasBudget = float64(hs.FeasSecs)
	}
	e.feasQueryMs = hs.FeasQueryMs
	e.hookLimit = 4
	if hs.HookLimit > 0 {
		e.hookLimit = hs.HookLimit
	}
	e.abstractBig = hs.AbstractBig
	without := map[string]bool{}
	for _, w := range hs.Without {
		without[w] = true
	}
	addRepl := func(target, model string) {
		m := l.pkg.Func(model)
		if m == nil {
			fatal("directive: model function %s not found in harness package", model)
		}
		e.replace[target] = m
	}
	for _, d := range l.directives {
		if without[d.target] {
			continue
		}
		switch d.kind {
		case "replace":
			addRepl(d.target, d.model)
		case "noop":
			e.noops[d.target] = true
		}
	}
	for _, o := range hs.Only {
		kv := strings.SplitN(o, "=", 2)
		addRepl(kv[0], kv[1])
	}
	return e
}

func runHarness(l *loaded, hs HarnessSpec, so solveOpts) (res *HarnessResult) {
	res = &HarnessResult{Spec: hs}
	fn := l.pkg.Func(hs.Func)
	if fn == nil {
		res.Err = "harness function not found: " + hs.Func
		return
	}
	resetTerms()
	e := newEngine(l, hs)
	res.eng = e
	budgetHook = e.checkBudget
	t0 := time.Now()
	func() {
		defer func() {
			if r := recover(); r != nil {
				if ae, ok := r.(abortErr); ok {
					if ae.msg == "skip-case" {
						res.Skipped = true
						return
					}
					res.Err = "cannot encode: " + ae.msg
					return
				}
				res.Err = fmt.Sprintf("engine crash: %v\n%s", r, debug.Stack())
			}
		}()
		_, g := e.callFn(fn, nil, nil, True, fn.Pos())
		// reachability witness for the end of the harness
		e.addOblig("witness", "end of harness reachable", "end of "+hs.Func, g)
	}()
	res.ExecSecs = time.Since(t0).Seconds()
	if e.feas != nil {
		e.feas.kill()
	}
	res.FeasQueries, res.FeasCuts, res.FeasSecs = e.feasN, e.feasCut, e.feasSecs
	res.Obligs = e.obligs
	res.Assumes = len(e.assumes)
	res.Blocks, res.Edges, res.Calls, res.Terms = e.blocksRun, e.edges, e.calls, nTerms
	res.Nondets = len(e.nondets)
	for f := range e.funcsSeen {
		res.Funcs = append(res.Funcs, f)
	}
	sort.Strings(res.Funcs)
	if res.Err != "" || res.Skipped {
		return
	}
	if so.timeoutMs == 0 {
		so.timeoutMs = 60000
	}
	if hs.TimeoutMs > 0 {
		so.timeoutMs = hs.TimeoutMs
	}
	if len(hs.Solvers) > 0 {
		so.solvers = hs.Solvers
	}
	t1 := time.Now()
	res.SolverTime = dischargeAll(e.obligs, e.assumes, so)
	res.SolveSecs = time.Since(t1).Seconds()
	return
}

func resetTerms() {
	termTab = map[termKey]*Term{}
	nTerms = 0
	varOrder = nil
	uboundMemo = map[int][2]uint64{}
	lemmas = nil
	lemmaSeen = map[int]bool{}
	True = mk("true", 0, nil, 1, "")
	False = mk("false", 0, nil, 0, "")
	bddNodes = []bddNode{{-1, 0, 0}, {-1, 1, 1}}
	bddUnique = map[bddNode]int{}
	bddVarOf = map[int]int{}
	bddMemo = map[int]int{}
	bddApply = map[[3]int]int{}
	bddDisabled = false
	bddSecs = 0
	bddCalls = 0
	nObjects = 0
	curGuard = nil
	wgCount = map[string]*Term{}
}

func fatal(format string, a ...interface{}) {
	fmt.Fprintf(os.Stderr, "vcheck: "+format+"\n", a...)
	os.Exit(2)
}

// ---------- replay ----------

type replayFile struct {
	Property string           `json:"property"`
	Pkg      string           `json:"pkg"`
	Harness  string           `json:"harness"`
	Kind     string           `json:"kind"`
	Label    string           `json:"label"`
	Pos      string           `json:"pos"`
	Values   map[string]int64 `json:"values"`
}

func (e *Engine) replayValues(model map[string]uint64) map[string]int64 {
	out := map[string]int64{}
	memo := map[int]uint64{}
	for _, k := range e.nondetOrder {
		if strings.HasPrefix(k, "$") || strings.HasSuffix(k, "!i") {
			continue
		}
		nd := e.nondets[k]
		v := evalTerm(nd.term, model, memo)
		if nd.w > 0 && nd.sgn {
			out[k] = signed(v, nd.term.w)
		} else {
			out[k] = int64(v)
		}
	}
	return out
}

// runNative runs the harness natively on a replay file; returns the VERIF-RESULT text.
func runNative(rf *replayFile, path string, timeout time.Duration) (string, string) {
	os.MkdirAll(workDir, 0o755)
	dir, err := os.MkdirTemp(workDir, "replay")
	if err != nil {
		return "", err.Error()
	}
	defer os.RemoveAll(dir)
	// all harness functions of the package (functions named H*)
	names := harnessFuncNames(rf.Pkg)
	ov, _ := overlayFiles(rf.Pkg, true, names)
	repl := map[string]string{}
	i := 0
	for virt, content := range ov {
		real := filepath.Join(dir, fmt.Sprintf("f%d_%s", i, filepath.Base(virt)))
		i++
		os.WriteFile(real, content, 0o644)
		repl[virt] = real
	}
	ovj, _ := json.Marshal(map[string]interface{}{"Replace": repl})
	ovPath := filepath.Join(dir, "overlay.json")
	os.WriteFile(ovPath, ovj, 0o644)
	abs, _ := filepath.Abs(path)
	cmd := exec.Command("go", "test", "-tags", "verif", "-vet=off", "-count=1", "-v", "-overlay", ovPath, "-run", "^TestVerifReplay$", "-timeout", fmt.Sprintf("%ds", int(timeout.Seconds())), "./"+rf.Pkg)
	cmd.Dir = repoDir
	cmd.Env = append(goEnv(), "VERIF_REPLAY="+abs, "VERIF_HARNESS="+rf.Harness)
	if sweepSpec != "" {
		cmd.Env = append(cmd.Env, "VERIF_SWEEP="+sweepSpec)
	}
	out, _ := cmd.CombinedOutput()
	s := string(out)
	if m := regexp.MustCompile(`VERIF-RESULT: (.*)`).FindStringSubmatch(s); m != nil {
		return strings.TrimSpace(m[1]), s
	}
	if strings.Contains(s, "panic: test timed out") {
		return "timeout", s
	}
	// a panic in a goroutine started by the code under test takes the whole test process down before the
	// result line is printed
	if m := regexp.MustCompile(`(?m)^panic: (.*)$`).FindStringSubmatch(s); m != nil {
		return "panic (process crashed) " + strings.TrimSpace(m[1]), s
	}
	return "", s
}

func harnessFuncNames(relPkg string) []string {
	var names []string
	re := regexp.MustCompile(`(?m)^func (H[A-Za-z0-9_]*)\(\)`)
	for _, f := range harnessFiles(relPkg) {
		b, _ := os.ReadFile(f)
		for _, m := range re.FindAllSubmatch(b, -1) {
			names = append(names, string(m[1]))
		}
	}
	sort.Strings(names)
	return names
}

func reproduced(kind, nativeRes string) bool {
	switch {
	case strings.HasPrefix(nativeRes, "assert-failed"), strings.HasPrefix(nativeRes, "panic"):
		return true
	case kind == "blocked" && (nativeRes == "timeout" || nativeRes == "blocked"):
		return true
	}
	return false
}

func cmdReplay(path string) int {
	b, err := os.ReadFile(path)
	if err != nil {
		fatal("%v", err)
	}
	var rf replayFile
	if err := json.Unmarshal(b, &rf); err != nil {
		fatal("%v", err)
	}
	res, out := runNative(&rf, path, 120*time.Second)
	fmt.Printf("native result: %q\n", res)
	if res == "" {
		fmt.Println(out)
	}
	if reproduced(rf.Kind, res) {
		// same rule as in the checks: a listed known finding is named, not raised again
		for _, kf := range loadKnown() {
			if !kf.fixed && kf.property == rf.Property && (kf.harness == "" || kf.harness == rf.Harness) &&
				(kf.label == "" || strings.Contains(rf.Label+" "+rf.Pos+" "+res, kf.label)) {
				txt := strings.TrimSpace(strings.TrimPrefix(kf.text, "finding:"))
				txt = strings.TrimSpace(strings.TrimPrefix(txt, "property="+rf.Property))
				fmt.Printf("KNOWN-FINDING: property=%s %s\n", rf.Property, txt)
				return 0
			}
		}
		fmt.Printf("VIOLATION property=%s replay=%s\n", rf.Property, path)
		return 1
	}
	return 0
}

func main() {
	if r := os.Getenv("VERIF_REPO"); r != "" {
		repoDir = r
	}
	if o := os.Getenv("VERIF_OUT"); o != "" {
		outDir = o
		workDir = filepath.Join(o, ".work")
	}
	if pf := os.Getenv("VERIF_CPUPROFILE"); pf != "" {
		f, _ := os.Create(pf)
		pprof.StartCPUProfile(f)
		defer pprof.StopCPUProfile()
	}
	if len(os.Args) < 2 {
		fatal("usage: vcheck run <property> [--tier quick|thorough] | vcheck replay <file> | vcheck harness <pkg> <func>")
	}
	switch os.Args[1] {
	case "run":
		fs := flag.NewFlagSet("run", flag.ExitOnError)
		tier := fs.String("tier", "quick", "quick|thorough")
		only := fs.String("only", "", "run only harnesses whose name contains this")
		if len(os.Args) < 3 {
			fatal("run: property id required")
		}
		fs.Parse(os.Args[3:])
		if t := os.Getenv("VERIF_TIER"); t != "" && !flagSet(fs, "tier") {
			*tier = t
		}
		os.Exit(runProperty(os.Args[2], *tier, *only))
	case "replay":
		os.Exit(cmdReplay(os.Args[2]))
	case "sweep":
		// vcheck sweep <pkg> <Hfunc> 'a=0..3,b=0..1': native self-test of a harness over a product of small ranges
		sweepSpec = os.Args[4]
		rf := &replayFile{Pkg: os.Args[2], Harness: os.Args[3]}
		tmp := filepath.Join(workDir, "sweep-empty.json")
		os.MkdirAll(workDir, 0o755)
		os.WriteFile(tmp, []byte(`{"values":{}}`), 0o644)
		res, out := runNative(rf, tmp, 900*time.Second)
		for _, l := range strings.Split(out, "\n") {
			if strings.HasPrefix(l, "VERIF-SWEEP-FAIL") {
				fmt.Println(l)
			}
		}
		fmt.Println(res)
		if res == "" {
			fmt.Println(out)
		}
	case "worker":
		cmdWorker()
	case "harness":
		fs := flag.NewFlagSet("harness", flag.ExitOnError)
		unwind := fs.Int("unwind", 8, "loop bound")
		recur := fs.Int("recur", 8, "recursion bound")
		to := fs.Int("timeout", 60000, "solver timeout ms")
		workers := fs.Int("workers", 16, "solver workers")
		fs.Parse(os.Args[4:])
		l := loadPkg(os.Args[2])
		hs := HarnessSpec{Pkg: os.Args[2], Func: os.Args[3], Unwind: *unwind, Recur: *recur}
		if reg := findSpec(os.Args[3]); reg != nil {
			hs = *reg
			if flagSet(fs, "unwind") {
				hs.Unwind = *unwind
			}
		}
		if sp := os.Getenv("VERIF_SPEC"); sp != "" {
			// development aid: JSON overrides for the harness spec (e.g. {"UnwindFor":{"parseConfig":40}})
			if err := json.Unmarshal([]byte(sp), &hs); err != nil {
				fatal("VERIF_SPEC: %v", err)
			}
		}
		if pc := os.Getenv("VERIF_PINCASE"); pc != "" {
			pinCase = map[string]int64{}
			for _, kv := range strings.Split(pc, ",") {
				p := strings.SplitN(kv, "=", 2)
				v, _ := strconv.ParseInt(p[1], 10, 64)
				pinCase[p[0]] = v
			}
		}
		if os.Getenv("VERIF_NOFEAS") != "" {
			noFeasGlobal = true
		}
		r := runHarness(l, hs, solveOpts{workers: *workers, timeoutMs: *to, solvers: []string{"z3-new", "z3"}})
		printResult(r)
		pprof.StopCPUProfile()
	default:
		fatal("unknown command %s", os.Args[1])
	}
}

// srcDir: where harness/ and models/ are read from (development aid VERIF_SRC: a staging copy, so that
// harnesses can be edited while a long run uses the committed ones)
func srcDir() string {
	if d := os.Getenv("VERIF_SRC"); d != "" {
		return d
	}
	return verifDir
}

var sweepSpec string
var noFeasGlobal bool
var pinCase map[string]int64

func flagSet(fs *flag.FlagSet, name string) bool {
	set := false
	fs.Visit(func(f *flag.Flag) {
		if f.Name == name {
			set = true
		}
	})
	return set
}

func printResult(r *HarnessResult) {
	fmt.Printf("harness %s: exec %.2fs solve %.2fs blocks=%d edges=%d calls=%d terms=%d nondets=%d assumes=%d obligs=%d feas=%d/%d(%.1fs)\n",
		r.Spec.Func, r.ExecSecs, r.SolveSecs, r.Blocks, r.Edges, r.Calls, r.Terms, r.Nondets, r.Assumes, len(r.Obligs), r.FeasCuts, r.FeasQueries, r.FeasSecs)
	fmt.Printf("  bdd: %d calls %.2fs, %d nodes, gaveup=%d disabled=%v\n", bddCalls, bddSecs, len(bddNodes), bddGaveUp, bddDisabled)
	if r.Err != "" {
		fmt.Println("  ERROR:", r.Err)
	}
	if r.eng != nil && r.eng.pin != nil {
		for _, tr := range r.eng.traces {
			fmt.Printf("      trace %s: reached=%d value=%d\n", tr.label, evalTerm(tr.g, nil, map[int]uint64{}), evalTerm(tr.t, nil, map[int]uint64{}))
		}
	}
	for _, o := range r.Obligs {
		fmt.Printf("  [%s] %-8s %-50s %s (%.2fs %s)\n", o.verdict, o.kind, o.label, o.pos, o.secs, o.solver)
		if o.verdict == "sat" && o.kind != "witness" && r.eng != nil {
			vals := r.eng.replayValues(o.model)
			var ks []string
			for k := range vals {
				ks = append(ks, k)
			}
			sort.Strings(ks)
			var sb strings.Builder
			for _, k := range ks {
				sb.WriteString(k + "=" + strconv.FormatInt(vals[k], 10) + " ")
			}
			fmt.Println("      model:", sb.String())
			fmt.Println("      cond under model evaluates to", evalTerm(o.cond, o.model, map[int]uint64{}), " stack:", o.stack)
			if os.Getenv("VERIF_SHOWCOND") != "" {
				fmt.Println("      cond:", termStr(o.cond, 12))
			}
			for _, tr := range r.eng.traces {
				fmt.Printf("      trace %s: reached=%d value=%d\n", tr.label, evalTerm(tr.g, o.model, map[int]uint64{}), evalTerm(tr.t, o.model, map[int]uint64{}))
			}
		}
	}
}
