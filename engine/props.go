package main

import (
	"crypto/sha1"
	"encoding/json"
	"fmt"
	"os"
	"path/filepath"
	"sort"
	"strconv"
	"strings"
	"time"
)

type PropSpec struct {
	ID       string
	Quick    []HarnessSpec
	Thorough []HarnessSpec
	Stubs    []string // stubs/models/assumptions in words (goes to evidence.assumptions)
	Out      []string // what is outside the claim
}

const pkgCC = "internal/app/connectconformance"
const pkgInternal = "internal"
const pkgTracer = "internal/tracer"
const pkgRefServer = "internal/app/referenceserver"
const pkgRefClient = "internal/app/referenceclient"
const pkgMain = "cmd/connectconformance"
const pkgGrpcutil = "internal/grpcutil"
const pkgCompression = "internal/compression"

func findSpec(fn string) *HarnessSpec {
	for _, p := range registry() {
		for _, h := range append(append([]HarnessSpec{}, p.Quick...), p.Thorough...) {
			if h.Func == fn {
				hh := h
				return &hh
			}
		}
	}
	return nil
}

type knownFinding struct {
	fixed    bool
	property string
	harness  string
	label    string
	text     string
}

func loadKnown() []knownFinding {
	b, err := os.ReadFile(filepath.Join(verifDir, "known_findings.txt"))
	if err != nil {
		return nil
	}
	var out []knownFinding
	for _, ln := range strings.Split(string(b), "\n") {
		ln = strings.TrimSpace(ln)
		if ln == "" || strings.HasPrefix(ln, "#") {
			continue
		}
		kf := knownFinding{text: ln}
		if strings.HasPrefix(ln, "fixed:") {
			kf.fixed = true
		} else if !strings.HasPrefix(ln, "finding:") {
			continue
		}
		for _, f := range strings.Fields(ln) {
			if v, ok := strings.CutPrefix(f, "property="); ok {
				kf.property = v
			}
			if v, ok := strings.CutPrefix(f, "harness="); ok {
				kf.harness = v
			}
			if v, ok := strings.CutPrefix(f, "label="); ok {
				kf.label = strings.ReplaceAll(v, "_", " ")
			}
		}
		out = append(out, kf)
	}
	return out
}

func runProperty(id, tier, only string) int {
	t0 := time.Now()
	var ps *PropSpec
	for _, p := range registry() {
		if p.ID == id {
			pp := p
			ps = &pp
		}
	}
	if ps == nil {
		fatal("unknown property %s", id)
	}
	specs := ps.Quick
	if tier == "thorough" && len(ps.Thorough) > 0 {
		specs = ps.Thorough
	}
	seed := 0
	if s := os.Getenv("VERIF_SEED"); s != "" {
		seed, _ = strconv.Atoi(s)
	}
	so := solveOpts{workers: 16, timeoutMs: 120000, solvers: []string{"z3-new", "z3"}}
	if tier == "thorough" {
		so.timeoutMs = 600000
		so.cross = "z3"
		so.solvers = []string{"z3-new", "cvc5"}
	}
	os.MkdirAll(filepath.Join(verifDir, "evidence"), 0o755)
	os.MkdirAll(filepath.Join(verifDir, "replays"), 0o755)
	known := loadKnown()
	byPkg := map[string]*loaded{}
	var results []*HarnessResult
	violations := 0
	var vioLines []string
	inconclusive := 0
	spurious := 0
	broken := 0
	knownHit := 0
	var samples []interface{}
	for _, hs := range specs {
		if only != "" && !strings.Contains(hs.Func, only) {
			continue
		}
		l := byPkg[hs.Pkg]
		if l == nil {
			l = loadPkg(hs.Pkg)
			byPkg[hs.Pkg] = l
		}
		r := runHarness(l, hs, so)
		results = append(results, r)
		if verbose {
			printResult(r)
		}
		if r.Err != "" {
			fmt.Printf("INCONCLUSIVE harness=%s %s\n", hs.Func, r.Err)
			inconclusive++
			continue
		}
		for _, o := range r.Obligs {
			switch o.kind {
			case "witness":
				if o.verdict == "unsat" {
					fmt.Printf("BROKEN-HARNESS harness=%s witness %q is unreachable (vacuous)\n", hs.Func, o.label)
					broken++
				} else if o.verdict != "sat" {
					inconclusive++
					fmt.Printf("INCONCLUSIVE harness=%s witness %q: %s %s\n", hs.Func, o.label, o.verdict, o.solver)
				}
			case "unwind", "limit":
				if o.verdict != "unsat" {
					inconclusive++
					fmt.Printf("INCONCLUSIVE harness=%s bound too small: %s at %s (%s)\n", hs.Func, o.label, o.pos, o.verdict)
				}
			default: // assert, panic, blocked
				if o.verdict == "unsat" {
					continue
				}
				if o.verdict != "sat" {
					inconclusive++
					fmt.Printf("INCONCLUSIVE harness=%s %s %q at %s: %s %s\n", hs.Func, o.kind, o.label, o.pos, o.verdict, o.solver)
					continue
				}
				// counterexample: replay natively before reporting
				rf := &replayFile{Property: id, Pkg: hs.Pkg, Harness: hs.Func, Kind: o.kind, Label: o.label, Pos: o.pos, Values: r.eng.replayValues(o.model)}
				jb, _ := json.MarshalIndent(rf, "", " ")
				h := sha1.Sum(jb)
				path := filepath.Join(verifDir, "replays", fmt.Sprintf("%s-%s-%x.json", id, hs.Func, h[:5]))
				os.WriteFile(path, jb, 0o644)
				nres, nout := runNative(rf, path, 120*time.Second)
				if reproduced(o.kind, nres) {
					// known finding?
					isKnown := false
					for _, kf := range known {
						if !kf.fixed && kf.property == id && (kf.harness == "" || kf.harness == hs.Func) && (kf.label == "" || strings.Contains(o.label+" "+o.pos+" "+nres, kf.label)) {
							isKnown = true
							fmt.Printf("KNOWN-FINDING: property=%s %s\n", id, strings.TrimPrefix(kf.text, "finding:"))
						}
					}
					if isKnown {
						knownHit++
						continue
					}
					violations++
					line := fmt.Sprintf("VIOLATION property=%s replay=%s", id, path)
					vioLines = append(vioLines, line)
					fmt.Printf("%s\n  harness=%s %s %q at %s; native: %s\n", line, hs.Func, o.kind, o.label, o.pos, nres)
				} else {
					spurious++
					fmt.Printf("SPURIOUS harness=%s %s %q at %s: solver model did not reproduce natively (native: %q)\n", hs.Func, o.kind, o.label, o.pos, nres)
					if verbose {
						fmt.Println(nout)
					}
					os.Remove(path)
				}
			}
		}
	}
	// evidence
	ev := buildEvidence(ps, tier, seed, results, violations, inconclusive, spurious, broken, knownHit, time.Since(t0).Seconds(), &samples)
	eb, _ := json.MarshalIndent(ev, "", " ")
	os.WriteFile(filepath.Join(verifDir, "evidence", id+".json"), eb, 0o644)
	os.RemoveAll(workDir)
	fmt.Printf("property %s tier %s: harnesses=%d violations=%d inconclusive=%d spurious=%d broken=%d known=%d wall=%.1fs\n",
		id, tier, len(results), violations, inconclusive, spurious, broken, knownHit, time.Since(t0).Seconds())
	if violations > 0 {
		return 1
	}
	if (broken > 0 || inconclusive > 0 || spurious > 0) && os.Getenv("VERIF_STRICT") != "" {
		// Not a property violation, but the run did not establish the full claim (development aid only).
		return 3
	}
	return 0
}

func buildEvidence(ps *PropSpec, tier string, seed int, results []*HarnessResult, violations, inconclusive, spurious, broken, knownHit int, wall float64, samples *[]interface{}) map[string]interface{} {
	states, trans, obl, dis := 0, 0, 0, 0
	solverTime := 0.0
	funcs := map[string]bool{}
	var harnesses []interface{}
	var sm []interface{}
	nontrivial := 0
	for _, r := range results {
		states += r.Blocks
		trans += r.Edges
		solverTime += r.SolverTime
		hob := map[string]int{}
		for _, o := range r.Obligs {
			obl++
			hob[o.kind+":"+o.verdict]++
			ok := (o.kind == "witness" && o.verdict == "sat") || (o.kind != "witness" && o.verdict == "unsat")
			if ok {
				dis++
			}
			if o.secs > 0.0 && termSize([]*Term{o.cond}) > 3 {
				nontrivial++
			}
			if len(sm) < 12 && (o.kind == "assert" || o.kind == "witness" || len(sm) < 4) {
				sm = append(sm, map[string]interface{}{"harness": r.Spec.Func, "kind": o.kind, "label": o.label, "pos": o.pos, "verdict": o.verdict, "solver": o.solver, "secs": round3(o.secs), "term_nodes": termSizeSafe(o.cond)})
			}
		}
		for _, f := range r.Funcs {
			funcs[f] = true
		}
		harnesses = append(harnesses, map[string]interface{}{
			"harness": r.Spec.Func, "pkg": r.Spec.Pkg, "bounds": r.Spec.Note,
			"unwind": r.eng.maxUnwind, "unwind_for": r.Spec.UnwindFor, "recursion": r.eng.maxRecur,
			"block_instances": r.Blocks, "edges": r.Edges, "calls_inlined": r.Calls, "term_nodes": r.Terms,
			"symbolic_inputs": r.Nondets, "assumptions": r.Assumes, "obligations": hob,
			"exec_s": round3(r.ExecSecs), "solve_wall_s": round3(r.SolveSecs), "solver_cpu_s": round3(r.SolverTime), "error": r.Err,
		})
	}
	var fl []string
	for f := range funcs {
		if !strings.Contains(f, ".v") || true {
			fl = append(fl, f)
		}
	}
	sort.Strings(fl)
	asm := append([]string{}, ps.Stubs...)
	for _, o := range ps.Out {
		asm = append(asm, "outside the claim: "+o)
	}
	asm = append(asm,
		"go/packages + go/ssa lowering of /repo's current working tree is faithful",
		"gosym's semantics of the SSA instructions it executes (bit-vector ints with wrap-around, guarded merge of paths, insertion-log maps, byte-vector strings)",
		"solver verdicts (z3 4.8.12; second solver consulted on unknown, and always in thorough tier)",
		"bounds: the verdict covers every input inside the stated bounds and nothing outside them")
	cov := map[string]interface{}{
		"states":                        states,
		"transitions":                   trans,
		"traces_validated_against_impl": 0,
		"samples":                       sm,
		"obligations":                   obl,
		"discharged":                    dis,
		"evaluations":                   obl,
		"distinct_nontrivial":           nontrivial,
		"rule":                          "one evaluation = one solver query (assertion instance, reachable-panic site, unwinding/limit assertion or reachability witness) over symbolic inputs; non-trivial = query with more than 3 term nodes that reached the solver",
		"functions_encoded":             fl,
		"harnesses":                     harnesses,
		"solver_time_s":                 round3(solverTime),
		"inconclusive":                  inconclusive,
		"spurious_models":               spurious,
		"broken_harnesses":              broken,
		"known_findings_hit":            knownHit,
		"checker_cmd":                   "./bin/vcheck run " + ps.ID + " --tier " + tier,
		"trusted_base":                  []string{"go/ssa (x/tools v0.29.0)", "gosym encoder (/verif/engine)", "z3 4.8.12 / z3 5.1.0 / cvc5 1.0.3", "harness specifications in /verif/harness"},
		"explanation":                   "bounded symbolic execution of the real functions (SSA built from /repo's working tree on this run); states = SSA basic-block instances executed under a guard, transitions = guarded CFG edges; each obligation is decided by an SMT solver for all inputs inside the bounds; sat models are replayed natively against the real code before being reported",
		"exhaustive":                    false,
	}
	return map[string]interface{}{
		"property_id": ps.ID,
		"tier":        tier,
		"seed":        seed,
		"level":       "model_checking",
		"coverage":    cov,
		"assumptions": asm,
		"wall_s":      round3(wall),
		"violations":  violations,
	}
}

func termSizeSafe(t *Term) int {
	if t == nil {
		return 0
	}
	return termSize([]*Term{t})
}

func round3(f float64) float64 { return float64(int(f*1000+0.5)) / 1000 }
