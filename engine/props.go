package main

import (
	"bufio"
	"crypto/sha1"
	"io"
	"os/exec"
	"sync"
	"encoding/json"
	"fmt"
	"os"
	"path/filepath"
	"sort"
	"strconv"
	"strings"
	"time"
)

type PropSpec struct {
	ID       string
	Quick    []HarnessSpec
	Thorough []HarnessSpec
	Stubs    []string // stubs/models/assumptions in words (goes to evidence.assumptions)
	Out      []string // what is outside the claim
}

const pkgCC = "internal/app/connectconformance"
const pkgInternal = "internal"
const pkgTracer = "internal/tracer"
const pkgRefServer = "internal/app/referenceserver"
const pkgRefClient = "internal/app/referenceclient"
const pkgMain = "cmd/connectconformance"
const pkgGrpcutil = "internal/grpcutil"
const pkgCompression = "internal/compression"

func findSpec(fn string) *HarnessSpec {
	for _, p := range registry() {
		for _, h := range append(append([]HarnessSpec{}, p.Quick...), p.Thorough...) {
			if h.Func == fn {
				hh := h
				return &hh
			}
		}
	}
	return nil
}

type knownFinding struct {
	fixed    bool
	property string
	harness  string
	label    string
	text     string
}

func loadKnown() []knownFinding {
	b, err := os.ReadFile(filepath.Join(verifDir, "known_findings.txt"))
	if err != nil {
		return nil
	}
	var out []knownFinding
	for _, ln := range strings.Split(string(b), "\n") {
		ln = strings.TrimSpace(ln)
		if ln == "" || strings.HasPrefix(ln, "#") {
			continue
		}
		kf := knownFinding{text: ln}
		if strings.HasPrefix(ln, "fixed:") {
			kf.fixed = true
		} else if !strings.HasPrefix(ln, "finding:") {
			continue
		}
		for _, f := range strings.Fields(ln) {
			if v, ok := strings.CutPrefix(f, "property="); ok {
				kf.property = v
			}
			if v, ok := strings.CutPrefix(f, "harness="); ok {
				kf.harness = v
			}
			if v, ok := strings.CutPrefix(f, "label="); ok {
				kf.label = strings.ReplaceAll(v, "_", " ")
			}
		}
		out = append(out, kf)
	}
	return out
}

// ---------- jobs (one harness, one case of its split dimensions) ----------

type SplitDim struct {
	Name   string
	Lo, Hi int
}

type Job struct {
	ID   int
	Spec HarnessSpec
	Pins map[string]int64
}

type ObligOut struct {
	Kind, Label, Pos string
	Verdict, Solver  string
	Secs             float64
	Nodes            int
	Values           map[string]int64 `json:",omitempty"`
}

type JobResult struct {
	ID          int
	Func, Pkg   string
	Pins        map[string]int64
	Err         string
	Skipped     bool
	Obligs      []ObligOut
	Assumes     int
	Blocks      int
	Edges       int
	Calls       int
	Terms       int
	Nondets     int
	Funcs       []string
	ExecSecs    float64
	SolveSecs   float64
	SolverTime  float64
	FeasQueries int
	FeasCuts    int
	Unwind      int
	Recur       int
}

func splitCases(dims []SplitDim) []map[string]int64 {
	cases := []map[string]int64{{}}
	for _, d := range dims {
		var next []map[string]int64
		for _, c := range cases {
			for v := d.Lo; v <= d.Hi; v++ {
				nc := map[string]int64{}
				for k, x := range c {
					nc[k] = x
				}
				nc[d.Name] = int64(v)
				next = append(next, nc)
			}
		}
		cases = next
	}
	return cases
}

// cmdWorker: reads jobs (JSON lines) on stdin, writes results (JSON lines) on stdout.
func cmdWorker() {
	in := bufio.NewReaderSize(os.Stdin, 1<<20)
	out := bufio.NewWriter(os.Stdout)
	byPkg := map[string]*loaded{}
	solverWorkers := 2
	if s := os.Getenv("VERIF_SOLVER_WORKERS"); s != "" {
		solverWorkers, _ = strconv.Atoi(s)
	}
	tier := os.Getenv("VERIF_TIER_INTERNAL")
	for {
		line, err := in.ReadBytes('\n')
		if len(line) > 1 {
			var job Job
			if jerr := json.Unmarshal(line, &job); jerr != nil {
				fatal("worker: bad job: %v", jerr)
			}
			l := byPkg[job.Spec.Pkg]
			if l == nil {
				l = loadPkg(job.Spec.Pkg)
				byPkg[job.Spec.Pkg] = l
			}
			so := solveOpts{workers: solverWorkers, timeoutMs: 120000, solvers: []string{"z3-new", "z3"}}
			if tier == "thorough" && !job.Spec.QuickSolve {
				so.timeoutMs = 600000
				so.cross = "z3"
				so.solvers = []string{"z3-new", "cvc5"}
			}
			pinCase = job.Pins
			r := runHarness(l, job.Spec, so)
			jr := JobResult{ID: job.ID, Func: job.Spec.Func, Pkg: job.Spec.Pkg, Pins: job.Pins, Err: r.Err, Skipped: r.Skipped,
				Assumes: r.Assumes, Blocks: r.Blocks, Edges: r.Edges, Calls: r.Calls, Terms: r.Terms, Nondets: r.Nondets, Funcs: r.Funcs,
				ExecSecs: r.ExecSecs, SolveSecs: r.SolveSecs, SolverTime: r.SolverTime, FeasQueries: r.FeasQueries, FeasCuts: r.FeasCuts}
			if r.eng != nil {
				jr.Unwind, jr.Recur = r.eng.maxUnwind, r.eng.maxRecur
			}
			for _, o := range r.Obligs {
				oo := ObligOut{Kind: o.kind, Label: o.label, Pos: o.pos, Verdict: o.verdict, Solver: o.solver, Secs: o.secs, Nodes: termSizeSafe(o.cond)}
				if o.verdict == "sat" && o.kind != "witness" && r.eng != nil {
					oo.Values = r.eng.replayValues(o.model)
				}
				jr.Obligs = append(jr.Obligs, oo)
			}
			b, _ := json.Marshal(jr)
			out.Write(b)
			out.WriteByte('\n')
			out.Flush()
		}
		if err != nil {
			return
		}
	}
}

func runJobs(jobs []Job, tier string) []JobResult {
	nw := 16
	if s := os.Getenv("VERIF_WORKERS"); s != "" {
		nw, _ = strconv.Atoi(s)
	}
	if nw > len(jobs) {
		nw = len(jobs)
	}
	sw := 16 / nw
	if sw < 1 {
		sw = 1
	}
	results := make([]JobResult, len(jobs))
	ch := make(chan int, len(jobs))
	for i := range jobs {
		ch <- i
	}
	close(ch)
	self, _ := os.Executable()
	var wg sync.WaitGroup
	for w := 0; w < nw; w++ {
		wg.Add(1)
		go func() {
			defer wg.Done()
			var cmd *exec.Cmd
			var stdin io.WriteCloser
			var rd *bufio.Reader
			start := func() bool {
				cmd = exec.Command(self, "worker")
				cmd.Env = append(os.Environ(), fmt.Sprintf("VERIF_SOLVER_WORKERS=%d", sw), "VERIF_TIER_INTERNAL="+tier)
				cmd.Stderr = os.Stderr
				var err error
				stdin, err = cmd.StdinPipe()
				if err != nil {
					return false
				}
				so, err := cmd.StdoutPipe()
				if err != nil {
					return false
				}
				rd = bufio.NewReaderSize(so, 1<<20)
				return cmd.Start() == nil
			}
			stop := func() {
				if cmd != nil {
					stdin.Close()
					cmd.Wait()
					cmd = nil
				}
			}
			defer stop()
			for i := range ch {
				if cmd == nil && !start() {
					results[i] = JobResult{ID: jobs[i].ID, Func: jobs[i].Spec.Func, Pkg: jobs[i].Spec.Pkg, Pins: jobs[i].Pins, Err: "cannot start worker"}
					continue
				}
				b, _ := json.Marshal(jobs[i])
				stdin.Write(append(b, '\n'))
				var line []byte
				var err error
				done := make(chan struct{})
				curCmd := cmd
				timedOut := false
				limit := 240 * time.Second
				if jobs[i].Spec.JobSecs > 0 {
					limit = time.Duration(jobs[i].Spec.JobSecs) * time.Second
				}
				go func() {
					select {
					case <-done:
					case <-time.After(limit):
						timedOut = true
						curCmd.Process.Kill()
					}
				}()
				for {
					line, err = rd.ReadBytes('\n')
					if err != nil || (len(line) > 0 && line[0] == '{') {
						break
					}
					// stray output from the worker (notes): pass through
					os.Stdout.Write(line)
				}
				close(done)
				var jr JobResult
				if err != nil || json.Unmarshal(line, &jr) != nil {
					msg := "worker died (out of memory or crash)"
					if timedOut {
						msg = fmt.Sprintf("job exceeded its %s time limit (reduced bound needed); not counted as success", limit)
					}
					jr = JobResult{ID: jobs[i].ID, Func: jobs[i].Spec.Func, Pkg: jobs[i].Spec.Pkg, Pins: jobs[i].Pins, Err: msg}
					stop()
					exec.Command("pkill", "-P", fmt.Sprint(curCmd.Process.Pid)).Run()
				}
				results[i] = jr
			}
		}()
	}
	wg.Wait()
	return results
}

func pinsStr(p map[string]int64) string {
	if len(p) == 0 {
		return ""
	}
	var ks []string
	for k := range p {
		ks = append(ks, k)
	}
	sort.Strings(ks)
	var sb strings.Builder
	for _, k := range ks {
		fmt.Fprintf(&sb, " %s=%d", k, p[k])
	}
	return " [case" + sb.String() + "]"
}

func runProperty(id, tier, only string) int {
	t0 := time.Now()
	var ps *PropSpec
	for _, p := range registry() {
		if p.ID == id {
			pp := p
			ps = &pp
		}
	}
	if ps == nil {
		fatal("unknown property %s", id)
	}
	specs := ps.Quick
	if tier == "thorough" {
		// the deeper variants, plus every quick harness that has no deeper variant (run with the quick
		// tier's solver settings: the second-solver cross-check is only affordable where it was measured)
		specs = append([]HarnessSpec{}, ps.Thorough...)
		base := func(f string) string {
			return strings.TrimSuffix(strings.TrimSuffix(f, "_q"), "_t")
		}
		have := map[string]bool{}
		for _, h := range ps.Thorough {
			have[base(h.Func)] = true
		}
		for _, h := range ps.Quick {
			if !have[base(h.Func)] {
				h.QuickSolve = true
				specs = append(specs, h)
			}
		}
	}
	seed := 0
	if s := os.Getenv("VERIF_SEED"); s != "" {
		seed, _ = strconv.Atoi(s)
	}
	os.MkdirAll(filepath.Join(outDir, "evidence"), 0o755)
	os.MkdirAll(filepath.Join(outDir, "replays"), 0o755)
	known := loadKnown()
	var jobs []Job
	for _, hs := range specs {
		if only != "" && !strings.Contains(hs.Func, only) {
			continue
		}
		cases := splitCases(hs.Split)
		if hs.CaseGen != nil {
			cases = hs.CaseGen()
		}
		for _, c := range cases {
			jobs = append(jobs, Job{ID: len(jobs), Spec: hs, Pins: c})
		}
	}
	results := runJobs(jobs, tier)
	violations, inconclusive, spurious, broken, knownHit, skipped := 0, 0, 0, 0, 0, 0
	seenVio := map[string]bool{}
	type replayTask struct {
		jr *JobResult
		o  *ObligOut
	}
	var tasks []replayTask
	for i := range results {
		r := &results[i]
		tag := r.Func + pinsStr(r.Pins)
		if r.Skipped {
			skipped++
			continue
		}
		if r.Err != "" {
			fmt.Printf("INCONCLUSIVE harness=%s %s\n", tag, r.Err)
			inconclusive++
			continue
		}
		for k := range r.Obligs {
			o := &r.Obligs[k]
			switch o.Kind {
			case "witness":
				if o.Verdict == "unsat" {
					fmt.Printf("BROKEN-HARNESS harness=%s witness %q is unreachable (vacuous)\n", tag, o.Label)
					broken++
				} else if o.Verdict != "sat" {
					inconclusive++
					fmt.Printf("INCONCLUSIVE harness=%s witness %q: %s %s\n", tag, o.Label, o.Verdict, o.Solver)
				}
			case "unwind", "limit":
				if o.Verdict != "unsat" {
					inconclusive++
					fmt.Printf("INCONCLUSIVE harness=%s bound too small: %s at %s (%s)\n", tag, o.Label, o.Pos, o.Verdict)
				}
			default: // assert, panic, blocked
				if o.Verdict == "unsat" {
					continue
				}
				if o.Verdict != "sat" {
					inconclusive++
					fmt.Printf("INCONCLUSIVE harness=%s %s %q at %s: %s %s\n", tag, o.Kind, o.Label, o.Pos, o.Verdict, o.Solver)
					continue
				}
				tasks = append(tasks, replayTask{r, o})
			}
		}
	}
	// counterexamples: replay natively before reporting (one per distinct harness/kind/label/pos; at most 24)
	type repOut struct {
		t     replayTask
		path  string
		nres  string
		nout  string
		extra int
	}
	var reps []*repOut
	byKey := map[string]*repOut{}
	for _, t := range tasks {
		key := t.jr.Func + "|" + t.o.Kind + "|" + t.o.Label + "|" + t.o.Pos
		if ro, ok := byKey[key]; ok {
			ro.extra++
			continue
		}
		ro := &repOut{t: t}
		byKey[key] = ro
		reps = append(reps, ro)
	}
	if len(reps) > 24 {
		fmt.Printf("note: %d distinct counterexample sites; replaying the first 24\n", len(reps))
		reps = reps[:24]
	}
	{
		var wg sync.WaitGroup
		sem := make(chan struct{}, 6)
		for _, ro := range reps {
			wg.Add(1)
			go func(ro *repOut) {
				defer wg.Done()
				sem <- struct{}{}
				defer func() { <-sem }()
				rf := &replayFile{Property: id, Pkg: ro.t.jr.Pkg, Harness: ro.t.jr.Func, Kind: ro.t.o.Kind, Label: ro.t.o.Label, Pos: ro.t.o.Pos, Values: ro.t.o.Values}
				jb, _ := json.MarshalIndent(rf, "", " ")
				h := sha1.Sum(jb)
				ro.path = filepath.Join(outDir, "replays", fmt.Sprintf("%s-%s-%x.json", id, ro.t.jr.Func, h[:5]))
				os.WriteFile(ro.path, jb, 0o644)
				ro.nres, ro.nout = runNative(rf, ro.path, 120*time.Second)
			}(ro)
		}
		wg.Wait()
	}
	for _, ro := range reps {
		o, r := ro.t.o, ro.t.jr
		tag := r.Func + pinsStr(r.Pins)
		if reproduced(o.Kind, ro.nres) {
			isKnown := false
			for _, kf := range known {
				if !kf.fixed && kf.property == id && (kf.harness == "" || kf.harness == r.Func) && (kf.label == "" || strings.Contains(o.Label+" "+o.Pos+" "+ro.nres, kf.label)) {
					isKnown = true
					txt := strings.TrimSpace(strings.TrimPrefix(kf.text, "finding:"))
					txt = strings.TrimSpace(strings.TrimPrefix(txt, "property="+id))
					fmt.Printf("KNOWN-FINDING: property=%s %s\n", id, txt)
				}
			}
			if isKnown {
				knownHit++
				continue
			}
			violations++
			line := fmt.Sprintf("VIOLATION property=%s replay=%s", id, ro.path)
			if !seenVio[line] {
				seenVio[line] = true
				fmt.Printf("%s\n  harness=%s %s %q at %s; native: %s (+%d more cases at this site)\n", line, tag, o.Kind, o.Label, o.Pos, ro.nres, ro.extra)
			}
		} else {
			spurious++
			fmt.Printf("SPURIOUS harness=%s %s %q at %s: solver model did not reproduce natively (native: %q)\n", tag, o.Kind, o.Label, o.Pos, ro.nres)
			if verbose {
				fmt.Println(ro.nout)
			}
			os.Remove(ro.path)
		}
	}
	ev := buildEvidence(ps, tier, seed, specs, results, violations, inconclusive, spurious, broken, knownHit, skipped, time.Since(t0).Seconds())
	eb, _ := json.MarshalIndent(ev, "", " ")
	os.WriteFile(filepath.Join(outDir, "evidence", id+".json"), eb, 0o644)
	os.RemoveAll(workDir)
	fmt.Printf("property %s tier %s: jobs=%d (skipped cases %d) violations=%d inconclusive=%d spurious=%d broken=%d known=%d wall=%.1fs\n",
		id, tier, len(results), skipped, violations, inconclusive, spurious, broken, knownHit, time.Since(t0).Seconds())
	if violations > 0 {
		return 1
	}
	if (broken > 0 || inconclusive > 0 || spurious > 0) && os.Getenv("VERIF_STRICT") != "" {
		// Not a property violation, but the run did not establish the full claim (development aid only).
		return 3
	}
	return 0
}

func buildEvidence(ps *PropSpec, tier string, seed int, specs []HarnessSpec, results []JobResult, violations, inconclusive, spurious, broken, knownHit, skipped int, wall float64) map[string]interface{} {
	states, trans, obl, dis := 0, 0, 0, 0
	solverTime := 0.0
	funcs := map[string]bool{}
	var sm []interface{}
	nontrivial := 0
	type agg struct {
		spec                                    HarnessSpec
		cases, skipped, blocks, edges, calls    int
		terms, nondets, assumes, feasQ, feasCut int
		exec, solveWall, solverCPU              float64
		ob                                      map[string]int
		errs                                    []string
		unwind, recur                           int
	}
	aggs := map[string]*agg{}
	var order []string
	for _, hs := range specs {
		if _, ok := aggs[hs.Func]; !ok {
			aggs[hs.Func] = &agg{spec: hs, ob: map[string]int{}}
			order = append(order, hs.Func)
		}
	}
	distinct := map[string]bool{}
	for i := range results {
		r := &results[i]
		a := aggs[r.Func]
		if a == nil {
			continue
		}
		a.cases++
		if r.Skipped {
			a.skipped++
			continue
		}
		states += r.Blocks
		trans += r.Edges
		solverTime += r.SolverTime
		a.blocks += r.Blocks
		a.edges += r.Edges
		a.calls += r.Calls
		a.terms += r.Terms
		a.feasQ += r.FeasQueries
		a.feasCut += r.FeasCuts
		a.exec += r.ExecSecs
		a.solveWall += r.SolveSecs
		a.solverCPU += r.SolverTime
		a.unwind, a.recur = r.Unwind, r.Recur
		if r.Nondets > a.nondets {
			a.nondets = r.Nondets
		}
		if r.Assumes > a.assumes {
			a.assumes = r.Assumes
		}
		if r.Err != "" {
			a.errs = append(a.errs, r.Err)
		}
		for _, o := range r.Obligs {
			obl++
			a.ob[o.Kind+":"+o.Verdict]++
			ok := (o.Kind == "witness" && o.Verdict == "sat") || (o.Kind != "witness" && o.Verdict == "unsat")
			if ok {
				dis++
			}
			if o.Nodes > 3 {
				k := fmt.Sprintf("%s|%s|%s|%s|%s", r.Func, pinsStr(r.Pins), o.Kind, o.Label, o.Pos)
				if !distinct[k] {
					distinct[k] = true
					nontrivial++
				}
			}
			if len(sm) < 16 && (o.Kind == "assert" || o.Kind == "witness" || len(sm) < 4) && o.Nodes > 3 {
				sm = append(sm, map[string]interface{}{"harness": r.Func, "case": r.Pins, "kind": o.Kind, "label": o.Label, "pos": o.Pos, "verdict": o.Verdict, "solver": o.Solver, "secs": round3(o.Secs), "term_nodes": o.Nodes})
			}
		}
		for _, f := range r.Funcs {
			funcs[f] = true
		}
	}
	if len(sm) == 0 {
		sm = append(sm, "no non-trivial obligation reached the solver")
	}
	var harnesses []interface{}
	for _, fn := range order {
		a := aggs[fn]
		harnesses = append(harnesses, map[string]interface{}{
			"harness": fn, "pkg": a.spec.Pkg, "bounds": a.spec.Note, "case_split": a.spec.Split, "case_split_note": a.spec.CaseNote, "cases_run": a.cases - a.skipped, "cases_skipped_by_harness": a.skipped,
			"unwind": a.unwind, "unwind_for": a.spec.UnwindFor, "recursion": a.recur,
			"block_instances": a.blocks, "edges": a.edges, "calls_inlined": a.calls, "term_nodes": a.terms,
			"symbolic_inputs": a.nondets, "assumptions": a.assumes, "obligations": a.ob,
			"feasibility_queries": a.feasQ, "feasibility_cuts": a.feasCut,
			"exec_s": round3(a.exec), "solve_wall_s": round3(a.solveWall), "solver_cpu_s": round3(a.solverCPU), "errors": a.errs,
		})
	}
	var fl []string
	for f := range funcs {
		fl = append(fl, f)
	}
	sort.Strings(fl)
	asm := append([]string{}, ps.Stubs...)
	for _, o := range ps.Out {
		asm = append(asm, "outside the claim: "+o)
	}
	asm = append(asm,
		"go/packages + go/ssa lowering of /repo's current working tree is faithful",
		"gosym's semantics of the SSA instructions it executes (bit-vector ints with wrap-around, guarded merge of paths, insertion-log maps, byte-vector strings)",
		"solver verdicts (z3 5.1.0 first, z3 4.8.12 on unknown; thorough tier: every verdict cross-checked by a second solver)",
		"bounds: the verdict covers every input inside the stated bounds and nothing outside them; case-split dimensions are enumerated completely, every other input is symbolic")
	cov := map[string]interface{}{
		"states":                        states,
		"transitions":                   trans,
		"traces_validated_against_impl": 0,
		"samples":                       sm,
		"obligations":                   obl,
		"discharged":                    dis,
		"evaluations":                   obl,
		"distinct_nontrivial":           nontrivial,
		"rule":                          "one evaluation = one solver query (assertion instance, reachable-panic site, unwinding/limit assertion or reachability witness) over symbolic inputs; distinct = different (harness, case, kind, label, position); non-trivial = the query has more than 3 term nodes",
		"functions_encoded":             fl,
		"harnesses":                     harnesses,
		"solver_time_s":                 round3(solverTime),
		"inconclusive":                  inconclusive,
		"spurious_models":               spurious,
		"broken_harnesses":              broken,
		"known_findings_hit":            knownHit,
		"checker_cmd":                   "./bin/vcheck run " + ps.ID + " --tier " + tier,
		"trusted_base":                  []string{"go/ssa (x/tools v0.29.0)", "gosym encoder (/verif/engine)", "z3 5.1.0 / z3 4.8.12 / cvc5 1.0.3", "harness specifications in /verif/harness"},
		"explanation":                   "bounded symbolic execution of the real functions (SSA built from /repo's working tree on this run); states = SSA basic-block instances executed under a guard, transitions = guarded CFG edges; each obligation is decided by an SMT solver for all inputs inside the bounds; sat models are replayed natively against the real code before being reported",
		"exhaustive":                    false,
	}
	return map[string]interface{}{
		"property_id": ps.ID,
		"tier":        tier,
		"seed":        seed,
		"level":       "model_checking",
		"coverage":    cov,
		"assumptions": asm,
		"wall_s":      round3(wall),
		"violations":  violations,
	}
}

func termSizeSafe(t *Term) int {
	if t == nil {
		return 0
	}
	return termSize([]*Term{t})
}

func round3(f float64) float64 { return float64(int(f*1000+0.5)) / 1000 }
