package main

import (
	"bufio"
	"fmt"
	"io"
	"os"
	"os/exec"
	"strconv"
	"strings"
	"sync"
	"time"
)

type solverProc struct {
	name  string
	cmd   *exec.Cmd
	in    io.WriteCloser
	out   *bufio.Reader
	em    *emitter
	sb    *strings.Builder
	dead  bool
	nq    int
}

var solverCmds = map[string][]string{
	"z3":     {"z3", "-in"},
	"z3-new": {"z3-new", "-in"},
	"cvc5":   {"cvc5", "--incremental", "--produce-models", "--lang=smt2"},
	"cvc5-int": {"cvc5", "--incremental", "--produce-models", "--lang=smt2", "--solve-bv-as-int=sum"},
}

func startSolver(name string) (*solverProc, error) {
	args := solverCmds[name]
	cmd := exec.Command(args[0], args[1:]...)
	in, _ := cmd.StdinPipe()
	outp, _ := cmd.StdoutPipe()
	cmd.Stderr = nil
	if err := cmd.Start(); err != nil {
		return nil, err
	}
	sb := &strings.Builder{}
	p := &solverProc{name: name, cmd: cmd, in: in, out: bufio.NewReaderSize(outp, 1<<20), sb: sb, em: newEmitter(sb)}
	pre := "(set-option :produce-models true)\n"
	if strings.HasPrefix(name, "cvc5") {
		pre += "(set-logic ALL)\n"
	}
	io.WriteString(in, pre)
	return p, nil
}

func (p *solverProc) kill() {
	if p.dead {
		return
	}
	p.dead = true
	p.in.Close()
	p.cmd.Process.Kill()
	p.cmd.Wait()
}

// exchange sends text and reads lines until the sentinel.
func (p *solverProc) exchange(text string, timeout time.Duration) ([]string, error) {
	p.nq++
	sentinel := fmt.Sprintf("<<done%d>>", p.nq)
	text += fmt.Sprintf("(echo \"%s\")\n", sentinel)
	type res struct {
		lines []string
		err   error
	}
	ch := make(chan res, 1)
	go func() {
		if _, err := io.WriteString(p.in, text); err != nil {
			ch <- res{nil, err}
			return
		}
		var lines []string
		for {
			l, err := p.out.ReadString('\n')
			if err != nil {
				ch <- res{lines, err}
				return
			}
			l = strings.TrimSpace(l)
			if strings.Trim(l, "\"") == sentinel {
				ch <- res{lines, nil}
				return
			}
			if l != "" {
				lines = append(lines, l)
			}
		}
	}()
	select {
	case r := <-ch:
		return r.lines, r.err
	case <-time.After(timeout):
		p.kill()
		return nil, fmt.Errorf("hard timeout")
	}
}

type queryResult struct {
	verdict string // sat | unsat | unknown | error
	model   map[string]uint64
	secs    float64
	solver  string
	detail  string
}

// check decides satisfiability of the conjunction of terms.
func (p *solverProc) check(conj []*Term, timeoutMs int, wantModel bool) queryResult {
	t0 := time.Now()
	p.sb.Reset()
	varsBefore := len(varOrder)
	_ = varsBefore
	var names []string
	for _, t := range conj {
		names = append(names, p.em.emit(t))
	}
	var q strings.Builder
	q.WriteString(p.sb.String())
	q.WriteString("(push 1)\n")
	if strings.HasPrefix(p.name, "cvc5") {
		fmt.Fprintf(&q, "(set-option :tlimit-per %d)\n", timeoutMs)
	} else {
		fmt.Fprintf(&q, "(set-option :timeout %d)\n", timeoutMs)
	}
	for _, n := range names {
		fmt.Fprintf(&q, "(assert %s)\n", n)
	}
	q.WriteString("(check-sat)\n")
	if d := os.Getenv("VERIF_DUMP"); d != "" {
		os.MkdirAll(d, 0o755)
		var full strings.Builder
		em := newEmitter(&full)
		var ns []string
		for _, t := range conj {
			ns = append(ns, em.emit(t))
		}
		for _, n := range ns {
			fmt.Fprintf(&full, "(assert %s)\n", n)
		}
		full.WriteString("(check-sat)\n")
		dumpN++
		os.WriteFile(fmt.Sprintf("%s/q%d.smt2", d, dumpN), []byte(full.String()), 0o644)
	}
	lines, err := p.exchange(q.String(), time.Duration(timeoutMs)*time.Millisecond+20*time.Second)
	r := queryResult{solver: p.name}
	if err != nil {
		r.verdict = "unknown"
		r.detail = err.Error()
		r.secs = time.Since(t0).Seconds()
		return r
	}
	r.verdict = "unknown"
	for _, l := range lines {
		if strings.HasPrefix(l, "(error") {
			r.verdict = "error"
			r.detail = l
			break
		}
		if l == "sat" || l == "unsat" || l == "unknown" {
			r.verdict = l
		}
	}
	if r.verdict == "sat" && wantModel {
		// collect variables in the cone
		vars := coneVars(conj)
		if len(vars) > 0 {
			var gv strings.Builder
			gv.WriteString("(get-value (")
			for _, v := range vars {
				gv.WriteString(p.em.names[v.id])
				gv.WriteByte(' ')
			}
			gv.WriteString("))\n")
			ml, err := p.exchange(gv.String(), 60*time.Second)
			if err == nil {
				r.model = parseModel(strings.Join(ml, " "), vars, p.em)
			} else {
				r.detail = "get-value: " + err.Error()
			}
		} else {
			r.model = map[string]uint64{}
		}
	}
	if !p.dead {
		if _, err := p.exchange("(pop 1)\n", 20*time.Second); err != nil {
			p.kill()
		}
	}
	r.secs = time.Since(t0).Seconds()
	return r
}

func coneVars(roots []*Term) []*Term {
	seen := map[int]bool{}
	var vars []*Term
	st := append([]*Term(nil), roots...)
	for len(st) > 0 {
		t := st[len(st)-1]
		st = st[:len(st)-1]
		if seen[t.id] {
			continue
		}
		seen[t.id] = true
		if t.op == "var" {
			vars = append(vars, t)
		}
		st = append(st, t.args...)
	}
	return vars
}

// parseModel parses "((name value) (name value) ...)".
func parseModel(s string, vars []*Term, em *emitter) map[string]uint64 {
	byName := map[string]*Term{}
	for _, v := range vars {
		byName[em.names[v.id]] = v
	}
	m := map[string]uint64{}
	// tokenise pairs
	i := 0
	n := len(s)
	skipWS := func() {
		for i < n && (s[i] == ' ' || s[i] == '\n' || s[i] == '\t') {
			i++
		}
	}
	readSym := func() string {
		skipWS()
		if i < n && s[i] == '|' {
			j := strings.IndexByte(s[i+1:], '|')
			r := s[i : i+j+2]
			i += j + 2
			return r
		}
		j := i
		for j < n && s[j] != ' ' && s[j] != ')' && s[j] != '(' {
			j++
		}
		r := s[i:j]
		i = j
		return r
	}
	skipWS()
	if i < n && s[i] == '(' {
		i++
	}
	for {
		skipWS()
		if i >= n || s[i] == ')' {
			break
		}
		if s[i] != '(' {
			break
		}
		i++
		name := readSym()
		skipWS()
		var val uint64
		if i < n && s[i] == '(' { // (_ bvN w)
			j := strings.IndexByte(s[i:], ')')
			tok := strings.Fields(s[i+1 : i+j])
			if len(tok) >= 2 && strings.HasPrefix(tok[1], "bv") {
				val, _ = strconv.ParseUint(tok[1][2:], 10, 64)
			}
			i += j + 1
		} else {
			tok := readSym()
			switch {
			case tok == "true":
				val = 1
			case tok == "false":
				val = 0
			case strings.HasPrefix(tok, "#x"):
				val, _ = strconv.ParseUint(tok[2:], 16, 64)
			case strings.HasPrefix(tok, "#b"):
				val, _ = strconv.ParseUint(tok[2:], 2, 64)
			}
		}
		skipWS()
		if i < n && s[i] == ')' {
			i++
		}
		if v, ok := byName[name]; ok {
			m[v.name] = val
		}
	}
	return m
}

// oneShot decides a conjunction with a fresh solver process (full preprocessing, no incremental mode), which is
// far stronger than push/pop mode on arithmetic-heavy queries.
// raceSolvers runs every solver on the query as separate processes; the first definite answer wins.
func raceSolvers(conj []*Term, solvers []string, timeoutMs int, wantModel bool) (queryResult, float64) {
	if len(solvers) == 1 {
		r := oneShot(conj, solvers[0], timeoutMs, wantModel, nil)
		return r, r.secs
	}
	stop := make(chan struct{})
	ch := make(chan queryResult, len(solvers))
	for _, sn := range solvers {
		go func(sn string) { ch <- oneShot(conj, sn, timeoutMs, wantModel, stop) }(sn)
	}
	var best queryResult
	total := 0.0
	got := false
	for range solvers {
		r := <-ch
		total += r.secs
		if !got && (r.verdict == "sat" || r.verdict == "unsat") {
			best, got = r, true
			close(stop)
		} else if !got {
			best = r
		}
	}
	return best, total
}

func oneShot(conj []*Term, solver string, timeoutMs int, wantModel bool, stop chan struct{}) queryResult {
	t0 := time.Now()
	var full strings.Builder
	full.WriteString("(set-option :produce-models true)\n")
	if strings.HasPrefix(solver, "cvc5") {
		full.WriteString("(set-logic ALL)\n")
	}
	em := newEmitter(&full)
	var ns []string
	for _, t := range conj {
		ns = append(ns, em.emit(t))
	}
	for _, n := range ns {
		fmt.Fprintf(&full, "(assert %s)\n", n)
	}
	full.WriteString("(check-sat)\n")
	vars := coneVars(conj)
	if wantModel && len(vars) > 0 {
		full.WriteString("(get-value (")
		for _, v := range vars {
			full.WriteString(em.names[v.id])
			full.WriteByte(' ')
		}
		full.WriteString("))\n")
	}
	r := queryResult{solver: solver + "/oneshot", verdict: "unknown"}
	f, err := os.CreateTemp("", "vq*.smt2")
	if err != nil {
		r.detail = err.Error()
		return r
	}
	defer os.Remove(f.Name())
	f.WriteString(full.String())
	f.Close()
	args := append([]string{}, solverCmds[solver]...)
	var cmdArgs []string
	for _, a := range args[1:] {
		if a != "-in" && a != "--incremental" {
			cmdArgs = append(cmdArgs, a)
		}
	}
	if strings.HasPrefix(solver, "cvc5") {
		cmdArgs = append(cmdArgs, fmt.Sprintf("--tlimit=%d", timeoutMs))
	} else {
		cmdArgs = append(cmdArgs, fmt.Sprintf("-T:%d", timeoutMs/1000+1))
	}
	cmdArgs = append(cmdArgs, f.Name())
	cmd := exec.Command(args[0], cmdArgs...)
	done := make(chan struct{})
	go func() {
		select {
		case <-done:
		case <-stop:
			if cmd.Process != nil {
				cmd.Process.Kill()
			}
		case <-time.After(time.Duration(timeoutMs)*time.Millisecond + 10*time.Second):
			if cmd.Process != nil {
				cmd.Process.Kill()
			}
		}
	}()
	out, _ := cmd.Output()
	close(done)
	lines := strings.Split(string(out), "\n")
	rest := ""
	for i, l := range lines {
		l = strings.TrimSpace(l)
		if l == "sat" || l == "unsat" || l == "unknown" {
			r.verdict = l
			rest = strings.Join(lines[i+1:], " ")
			break
		}
		if strings.HasPrefix(l, "(error") {
			r.verdict = "error"
			r.detail = l
			break
		}
	}
	if r.verdict == "sat" && wantModel {
		r.model = parseModel(rest, vars, em)
	}
	r.secs = time.Since(t0).Seconds()
	return r
}

// ---------- pool ----------

type solveJob struct {
	ob   *Oblig
	conj []*Term
}

type solveOpts struct {
	workers   int
	timeoutMs int
	solvers   []string // escalation order; first is the pooled default
	cross     string   // optional second solver that must agree (thorough)
}

func dischargeAll(obs []*Oblig, assumes []*Term, opts solveOpts) (solverSecs float64) {
	jobs := make(chan *Oblig, len(obs))
	for _, o := range obs {
		jobs <- o
	}
	close(jobs)
	var wg sync.WaitGroup
	var mu sync.Mutex
	nw := opts.workers
	if nw > len(obs) {
		nw = len(obs)
	}
	for w := 0; w < nw; w++ {
		wg.Add(1)
		go func() {
			defer wg.Done()
			procs := map[string]*solverProc{}
			defer func() {
				for _, p := range procs {
					p.kill()
				}
			}()
			get := func(name string) *solverProc {
				p := procs[name]
				if p == nil || p.dead {
					np, err := startSolver(name)
					if err != nil {
						return nil
					}
					procs[name] = np
					p = np
				}
				return p
			}
			for o := range jobs {
				conj := append([]*Term{}, assumes[:o.nAssume]...)
				conj = append(conj, lemmas...)
				conj = append(conj, o.cond)
				var r queryResult
				// 1. incremental (push/pop) with a short limit: cheap for the many easy queries
				quick := opts.timeoutMs
				if quick > 4000 {
					quick = 4000
				}
				if p := get(opts.solvers[0]); p != nil {
					r = p.check(conj, quick, true)
					mu.Lock()
					solverSecs += r.secs
					mu.Unlock()
				}
				// 2. fresh process per query (full preprocessing) with the full limit, each solver in turn
				if r.verdict != "sat" && r.verdict != "unsat" {
					var secs float64
					r, secs = raceSolvers(conj, opts.solvers, opts.timeoutMs, true)
					mu.Lock()
					solverSecs += secs
					mu.Unlock()
				}
				if opts.cross != "" && (r.verdict == "sat" || r.verdict == "unsat") {
					{
						r2 := oneShot(conj, opts.cross, opts.timeoutMs, false, nil)
						mu.Lock()
						solverSecs += r2.secs
						mu.Unlock()
						if (r2.verdict == "sat" || r2.verdict == "unsat") && r2.verdict != r.verdict {
							r.verdict = "unknown"
							r.detail = fmt.Sprintf("solver disagreement: %s=%s vs %s=%s", r.solver, r.verdict, r2.solver, r2.verdict)
						} else {
							r.solver += "+" + r2.solver + ":" + r2.verdict
						}
					}
				}
				o.verdict, o.solver, o.secs, o.model = r.verdict, r.solver, r.secs, r.model
				if r.detail != "" {
					o.solver += " (" + r.detail + ")"
				}
			}
		}()
	}
	wg.Wait()
	return
}

var termMu sync.Mutex
var dumpN int
