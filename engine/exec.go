package main

import (
	"fmt"
	"go/constant"
	"go/token"
	"go/types"
	"os"
	"path/filepath"
	"runtime"
	"runtime/debug"
	"sort"
	"strings"
	"time"

	"golang.org/x/tools/go/ssa"
)

// ---------- engine ----------

type Oblig struct {
	kind    string // assert | panic | unwind | witness | blocked | limit
	label   string
	pos     string
	cond    *Term // the obligation is "cond (under assumptions[:nAssume]) is unsatisfiable" (for witness: satisfiable)
	nAssume int
	// results
	verdict string
	solver  string
	secs    float64
	model   map[string]uint64
	stack   string
}

type Nondet struct {
	key  string
	term *Term
	w    int
	sgn  bool
}

type spawnRec struct {
	g    *Term
	fv   FuncV
	args []Value
	done bool
}

type Engine struct {
	prog                 *ssa.Program
	hpkg                 *ssa.Package
	obligs               []*Oblig
	growFeasSecs float64
	feasQueryMs  int
	obIndex              map[string]*Oblig
	assumes              []*Term
	loops                map[*ssa.Function]*loopForest
	depth                int
	maxDepth             int
	maxUnwind            int
	unwindFor            map[string]int // per function name
	maxRecur             int
	recurFor             map[string]int
	defaultCap           int // capacity bound for allocations of symbolic size
	globals              map[*ssa.Global]*Object
	nondets              map[string]*Nondet
	nondetOrder          []string
	replace              map[string]*ssa.Function
	noops                map[string]bool
	active               map[*ssa.Function]int
	funcsSeen            map[string]bool
	spawned              []*spawnRec
	goQueue              bool
	rangeNoDedupe        bool
	rangeUTF8            bool // range over string decodes UTF-8 (symbolic offsets) instead of assuming ASCII
	blocksRun            int
	edges                int
	calls                int
	fset                 *token.FileSet
	panicsOff            bool // inside spec code marked with vSpecBegin/End: panics still recorded
	expectPanic          map[string]bool
	initDone             map[*ssa.Package]bool
	verifInitDone        map[*ssa.Package]bool
	tolerant             int // >0 while executing package init code
	selectN              int
	feasBudget           float64
	onlyVerifInit        bool
	hookDepth, hookLimit int
	abstractBig          bool
	shadow               map[string]int64  // high-level nondet values to follow (debug)
	shadowAsg            map[string]uint64 // solver-variable assignment derived from shadow
	shadowMemo           map[int]uint64
	shadowLog            *os.File
	stack                []string
	feas                 *solverProc
	feasN, feasCut       int
	feasSecs             float64
	feasAsserted         int
	noFeas               bool
	maxTerms             int
	deadline             time.Time
	traceCalls           bool
	traces               []traceRec
	pin                  map[string]int64
	pinCase              map[string]int64
}

type traceRec struct {
	label string
	t, g  *Term
}

type edge struct {
	pred *ssa.BasicBlock
	g    *Term
}

type retRec struct {
	g *Term
	v Value
}

type deferRec struct {
	g    *Term
	call *ssa.Defer
	fv   Value
	args []Value
}

type frame struct {
	e      *Engine
	fn     *ssa.Function
	env    map[ssa.Value]Value
	in     map[*ssa.BasicBlock][]edge
	rets   []retRec
	lf     *loopForest
	defers []deferRec
	free   []Value
	skipG  map[*ssa.BasicBlock]*Term // map-range: visit condition for the pending iteration of the header block
	bad    *Term                     // panic conditions raised by the current instruction
	wpg    *Term                     // full guard for panic obligations inside writePath when the value guard was relaxed
}

func (fr *frame) wg(g *Term) *Term {
	if fr.wpg != nil {
		return And(fr.wpg, g)
	}
	return g
}

func (e *Engine) checkBudget() {
	var ms runtime.MemStats
	runtime.ReadMemStats(&ms)
	if ms.HeapAlloc > 5<<30 {
		abort("symbolic execution memory budget exceeded: %d MB heap after %d block instances, %d term nodes", ms.HeapAlloc>>20, e.blocksRun, nTerms)
	}
	if e.maxTerms > 0 && nTerms > e.maxTerms {
		if os.Getenv("VERIF_TERMHIST") != "" {
			termHistogram()
		}
		abort("symbolic execution budget exceeded: %d term nodes after %d block instances", nTerms, e.blocksRun)
	}
	if !e.deadline.IsZero() && time.Now().After(e.deadline) {
		abort("symbolic execution time budget exceeded after %d block instances, %d term nodes", e.blocksRun, nTerms)
	}
}

type abortErr struct{ msg string }

func abort(format string, a ...interface{}) {
	panic(abortErr{fmt.Sprintf(format, a...)})
}

type loopInfo struct {
	header   *ssa.BasicBlock
	blocks   map[*ssa.BasicBlock]bool
	parent   *loopInfo
	children []*loopInfo
}

type loopForest struct {
	rpo       map[*ssa.BasicBlock]int
	innermost map[*ssa.BasicBlock]*loopInfo
	top       []*loopInfo
	liveOut   map[ssa.Value]bool
	items     map[*loopInfo][]item
}

func (e *Engine) forest(fn *ssa.Function) *loopForest {
	if lf, ok := e.loops[fn]; ok {
		return lf
	}
	lf := &loopForest{rpo: map[*ssa.BasicBlock]int{}, innermost: map[*ssa.BasicBlock]*loopInfo{}, liveOut: map[ssa.Value]bool{}, items: map[*loopInfo][]item{}}
	seen := map[*ssa.BasicBlock]bool{}
	var post []*ssa.BasicBlock
	// iterative DFS
	type st struct {
		b *ssa.BasicBlock
		i int
	}
	stack := []st{{fn.Blocks[0], 0}}
	seen[fn.Blocks[0]] = true
	for len(stack) > 0 {
		top := &stack[len(stack)-1]
		if top.i < len(top.b.Succs) {
			s := top.b.Succs[top.i]
			top.i++
			if !seen[s] {
				seen[s] = true
				stack = append(stack, st{s, 0})
			}
			continue
		}
		post = append(post, top.b)
		stack = stack[:len(stack)-1]
	}
	for i := range post {
		lf.rpo[post[len(post)-1-i]] = i
	}
	byHeader := map[*ssa.BasicBlock]*loopInfo{}
	for _, u := range fn.Blocks {
		if !seen[u] {
			continue
		}
		for _, h := range u.Succs {
			if h.Dominates(u) {
				lp := byHeader[h]
				if lp == nil {
					lp = &loopInfo{header: h, blocks: map[*ssa.BasicBlock]bool{h: true}}
					byHeader[h] = lp
				}
				var stack []*ssa.BasicBlock
				if !lp.blocks[u] {
					lp.blocks[u] = true
					stack = append(stack, u)
				}
				for len(stack) > 0 {
					x := stack[len(stack)-1]
					stack = stack[:len(stack)-1]
					for _, p := range x.Preds {
						if !lp.blocks[p] && seen[p] {
							lp.blocks[p] = true
							stack = append(stack, p)
						}
					}
				}
			} else if lf.rpo[h] < lf.rpo[u] {
				abort("irreducible CFG in %s", fn.String())
			}
		}
	}
	var all []*loopInfo
	for _, lp := range byHeader {
		all = append(all, lp)
	}
	sort.Slice(all, func(i, j int) bool {
		if len(all[i].blocks) != len(all[j].blocks) {
			return len(all[i].blocks) < len(all[j].blocks)
		}
		return all[i].header.Index < all[j].header.Index
	})
	for i, lp := range all {
		for _, outer := range all[i+1:] {
			if outer.blocks[lp.header] && outer != lp {
				lp.parent = outer
				outer.children = append(outer.children, lp)
				break
			}
		}
		if lp.parent == nil {
			lf.top = append(lf.top, lp)
		}
	}
	for _, b := range fn.Blocks {
		for _, lp := range all { // smallest first
			if lp.blocks[b] {
				lf.innermost[b] = lp
				break
			}
		}
	}
	for _, b := range fn.Blocks {
		lp := lf.innermost[b]
		if lp == nil {
			continue
		}
		for _, ins := range b.Instrs {
			v, ok := ins.(ssa.Value)
			if !ok {
				continue
			}
			refs := v.Referrers()
			if refs == nil {
				continue
			}
			for _, r := range *refs {
				// live-out of some enclosing loop of b that does not contain the referrer
				for l := lp; l != nil; l = l.parent {
					if !l.blocks[r.Block()] {
						lf.liveOut[v] = true
					}
				}
			}
		}
	}
	e.loops[fn] = lf
	return lf
}

func (fr *frame) addEdge(to, from *ssa.BasicBlock, g *Term) {
	g = prune(g)
	if g == False {
		return
	}
	fr.e.edges++
	fr.in[to] = append(fr.in[to], edge{from, g})
}

type item struct {
	rpo   int
	block *ssa.BasicBlock
	loop  *loopInfo
}

func (fr *frame) regionItems(lp *loopInfo) []item {
	if its, ok := fr.lf.items[lp]; ok {
		return its
	}
	var items []item
	for _, b := range fr.fn.Blocks {
		if _, ok := fr.lf.rpo[b]; !ok {
			continue
		}
		if fr.lf.innermost[b] == lp {
			items = append(items, item{rpo: fr.lf.rpo[b], block: b})
		}
	}
	var kids []*loopInfo
	if lp == nil {
		kids = fr.lf.top
	} else {
		kids = lp.children
	}
	for _, k := range kids {
		items = append(items, item{rpo: fr.lf.rpo[k.header], loop: k})
	}
	sort.Slice(items, func(i, j int) bool { return items[i].rpo < items[j].rpo })
	fr.lf.items[lp] = items
	return items
}

func (fr *frame) execRegion(lp *loopInfo) {
	for _, it := range fr.regionItems(lp) {
		if it.loop != nil {
			fr.execLoop(it.loop)
		} else {
			fr.execBlock(it.block)
		}
	}
}

func (e *Engine) unwindBound(fn *ssa.Function) int {
	if k, ok := e.unwindFor[fn.Name()]; ok {
		return k
	}
	if k, ok := e.unwindFor[fn.String()]; ok {
		return k
	}
	// key canonicalisation / case folding models walk header names byte by byte ("X-Test-Case-Name",
	// "Content-Encoding": 16 bytes); on the constant names of the code under test the loops fold away
	if n := fn.Name(); (n == "vModelCanonicalKey" || n == "vModelToLower") && e.maxUnwind < 40 {
		return 40
	}
	return e.maxUnwind
}

func (fr *frame) execLoop(lp *loopInfo) {
	K := fr.e.unwindBound(fr.fn)
	for iter := 0; ; iter++ {
		edges := fr.in[lp.header]
		var gs []*Term
		for _, e := range edges {
			gs = append(gs, e.g)
		}
		g := prune(Or(gs...))
		if g == False {
			delete(fr.in, lp.header)
			return
		}
		if iter > 0 && fr.e.worthAsking(iter) && !fr.e.feasibleSMT(g) {
			// the solver shows that no input inside the assumptions reaches another iteration
			delete(fr.in, lp.header)
			return
		}
		if iter >= K {
			fr.e.addOblig("unwind", fmt.Sprintf("loop in %s exceeds %d iterations", fr.fn.Name(), K), fr.e.posStr(lp.header.Instrs[0].Pos(), fr.fn), g)
			delete(fr.in, lp.header)
			return
		}
		fr.execRegion(lp)
	}
}

func (fr *frame) set(v ssa.Value, g *Term, val Value) {
	if old, ok := fr.env[v]; ok && fr.lf.liveOut[v] {
		fr.env[v] = iteVal(g, val, old)
		return
	}
	fr.env[v] = val
}

func (fr *frame) get(v ssa.Value) Value {
	switch c := v.(type) {
	case *ssa.Const:
		return constVal(c)
	case *ssa.Function:
		return FuncV{alts: []FuncAlt{{g: True, fn: c}}}
	case *ssa.Builtin:
		return v
	case *ssa.Global:
		return PtrV{alts: []PtrAlt{{g: True, obj: fr.e.globalObj(c)}}}
	case *ssa.FreeVar:
		for i, fv := range fr.fn.FreeVars {
			if fv == c {
				return fr.free[i]
			}
		}
	}
	if val, ok := fr.env[v]; ok {
		return val
	}
	abort("unbound value %s (%T) in %s", v.Name(), v, fr.fn)
	return nil
}

func constVal(c *ssa.Const) Value {
	if c.Value == nil {
		return zero(c.Type())
	}
	t := c.Type()
	if tp, ok := t.(*types.TypeParam); ok {
		_ = tp
		abort("const of type parameter")
	}
	switch c.Value.Kind() {
	case constant.String:
		return constStr(constant.StringVal(c.Value))
	case constant.Bool:
		return Bool(constant.BoolVal(c.Value))
	case constant.Int:
		if isFloat(t) {
			f, _ := constant.Float64Val(c.Value)
			return floatConst(f)
		}
		w := widthOf(t)
		if i, ok := constant.Int64Val(c.Value); ok {
			return BV(w, uint64(i))
		}
		u, _ := constant.Uint64Val(c.Value)
		return BV(w, u)
	case constant.Float:
		if isFloat(t) {
			f, _ := constant.Float64Val(c.Value)
			return floatConst(f)
		}
		// integer-valued float constant converted to int type
		if i, ok := constant.Int64Val(constant.ToInt(c.Value)); ok {
			return BV(widthOf(t), uint64(i))
		}
	}
	abort("const kind %s", c.Value.String())
	return nil
}

func (fr *frame) execBlock(b *ssa.BasicBlock) {
	edges := fr.in[b]
	delete(fr.in, b)
	var gs []*Term
	for _, e := range edges {
		gs = append(gs, e.g)
	}
	g := Or(gs...)
	if g == False {
		return
	}
	fr.e.blocksRun++
	if fr.e.blocksRun&0xff == 0 {
		fr.e.checkBudget()
	}
	var phiVals []Value
	var phis []*ssa.Phi
	for _, ins := range b.Instrs {
		phi, ok := ins.(*ssa.Phi)
		if !ok {
			break
		}
		var acc Value
		for i, e := range edges {
			var v Value
			if e.pred == b && fr.skipEdge(b) {
				v = fr.env[phi] // skip edge of a map-range header: carried value unchanged
			} else {
				pi := -1
				for k, p := range b.Preds {
					if p == e.pred {
						pi = k
					}
				}
				if pi < 0 {
					abort("phi: missing pred in %s", fr.fn)
				}
				v = fr.get(phi.Edges[pi])
			}
			if i == 0 {
				acc = v
			} else {
				acc = iteVal(e.g, v, acc)
			}
		}
		phis = append(phis, phi)
		phiVals = append(phiVals, acc)
	}
	for i, phi := range phis {
		fr.set(phi, g, phiVals[i])
	}
	for _, ins := range b.Instrs[len(phis):] {
		if fr.e.onlyVerifInit && fr.fn.Name() == "init" {
			// harness-package initialiser: only the initialisers written in harness files are executed
			switch ins.(type) {
			case *ssa.If, *ssa.Jump, *ssa.Return:
				if iff, ok := ins.(*ssa.If); ok {
					// the init guard: take the "not yet initialised" branch
					_ = iff
					fr.addEdge(b.Succs[1], b, g)
					continue
				}
			default:
				if ins.Pos().IsValid() {
					if bn := filepath.Base(fr.e.fset.Position(ins.Pos()).Filename); !strings.HasPrefix(bn, "zz_verif") || bn == "zz_verif_api.go" {
						continue
					}
				}
				if c, ok := ins.(*ssa.Call); ok {
					if f := c.Call.StaticCallee(); f != nil && f.Name() == "init" {
						continue // initialisers of other packages
					}
				}
				// instructions that depend on skipped ones are skipped too
				okInstr := func() (ok bool) {
					defer func() {
						if r := recover(); r != nil {
							ok = false
						}
					}()
					fr.bad = nil
					curGuard = g
					g = fr.execInstr(b, ins, g)
					return true
				}()
				_ = okInstr
				if g == False {
					return
				}
				continue
			}
		}
		fr.bad = nil
		curGuard = g
		gBefore := g
		g = fr.execInstr(b, ins, g)
		if fr.e.shadowLog != nil {
			fr.e.logShadow(fr, ins, gBefore)
		}
		if g == False {
			return
		}
		if fr.bad != nil {
			switch ins.(type) {
			case *ssa.If, *ssa.Jump, *ssa.Return:
			default:
				g = prune(And(g, Not(fr.bad)))
				if g == False {
					return
				}
			}
		}
	}
}

// skipEdge reports whether b is a map-range header (self edges are "continue" edges added by the engine).
func (fr *frame) skipEdge(b *ssa.BasicBlock) bool {
	for _, p := range b.Preds {
		if p == b {
			return false // a genuine self loop
		}
	}
	return true
}

func (e *Engine) posStr(p token.Pos, fn *ssa.Function) string {
	if p.IsValid() {
		ps := e.fset.Position(p)
		f := ps.Filename
		if strings.HasPrefix(f, repoDir+"/") {
			f = f[len(repoDir)+1:]
		}
		return fmt.Sprintf("%s:%d", f, ps.Line)
	}
	if fn != nil {
		return "in " + fn.String()
	}
	return "?"
}

func (e *Engine) addOblig(kind, label, pos string, cond *Term) {
	cond = prune(cond)
	if cond == False {
		return
	}
	key := fmt.Sprintf("%s|%s|%s|%d", kind, label, pos, len(e.assumes))
	if kind != "assert" && kind != "witness" {
		if o, ok := e.obIndex[key]; ok {
			o.cond = Or(o.cond, cond)
			return
		}
	}
	o := &Oblig{kind: kind, label: label, pos: pos, cond: cond, nAssume: len(e.assumes), stack: strings.Join(e.stack, " > ")}
	if dbg := os.Getenv("VERIF_DEBUG_OBLIG"); dbg != "" && strings.Contains(pos, dbg) {
		o.stack += "\n" + string(debug.Stack())
	}
	e.obligs = append(e.obligs, o)
	e.obIndex[key] = o
}

func (fr *frame) panicAt(cond *Term, kind string, pos token.Pos) {
	if fr.e.tolerant > 0 {
		return
	}
	if fr.e.shadowLog != nil && cond != False && fr.e.shadowEval(cond) == 1 {
		fmt.Printf("SHADOW: panic condition true under the model: %s at %s stack=%v\n%s\n", kind, fr.e.posStr(pos, fr.fn), fr.e.stack, debug.Stack())
	}
	fr.e.addOblig("panic", kind, fr.e.posStr(pos, fr.fn), cond)
	// the path that panics does not continue: execBlock strengthens the guard after the instruction
	if fr.bad == nil {
		fr.bad = cond
	} else {
		fr.bad = Or(fr.bad, cond)
	}
}

// ---------- memory ----------

func (fr *frame) load(p PtrV, g *Term, pos token.Pos) Value {
	var acc Value
	for _, al := range p.alts {
		ag := And(g, al.g)
		if !feasible(ag) {
			continue
		}
		if al.obj == nil {
			fr.panicAt(ag, "nil pointer dereference", pos)
			continue
		}
		v := fr.readPath(al.obj.val, al.path, ag, pos)
		if acc == nil {
			acc = v
		} else {
			acc = iteVal(al.g, v, acc)
		}
	}
	return acc
}

func (fr *frame) readPath(cur Value, path []PathElem, g *Term, pos token.Pos) Value {
	if len(path) == 0 {
		return cur
	}
	pe := path[0]
	if pe.idx == nil {
		s, ok := cur.(StructV)
		if !ok {
			abort("readPath: field of %T", cur)
		}
		return fr.readPath(s.f[pe.field], path[1:], g, pos)
	}
	if _, abs := cur.(AbstractArr); abs {
		return BV(8, 0)
	}
	arr := cur.(ArrayV)
	n := len(arr.e)
	if pe.idx.konst {
		if pe.idx.val >= uint64(n) {
			fr.panicAt(g, "index out of range", pos)
			if n == 0 {
				return nil
			}
			return fr.readPath(arr.e[0], path[1:], g, pos)
		}
		return fr.readPath(arr.e[pe.idx.val], path[1:], g, pos)
	}
	fr.panicAt(And(g, Not(Cmp("bvult", pe.idx, BV(IntW, uint64(n))))), "index out of range", pos)
	var acc Value
	for k := n - 1; k >= 0; k-- {
		c := Eq(pe.idx, BV(IntW, uint64(k)))
		if c == False {
			continue
		}
		v := fr.readPath(arr.e[k], path[1:], g, pos)
		if acc == nil {
			acc = v
		} else {
			acc = iteVal(c, v, acc)
		}
	}
	if acc == nil && n > 0 {
		acc = fr.readPath(arr.e[0], path[1:], g, pos)
	}
	return acc
}

func (fr *frame) store(p PtrV, v Value, g *Term, pos token.Pos) {
	for _, al := range p.alts {
		ag := And(g, al.g)
		if !feasible(ag) {
			continue
		}
		if al.obj == nil {
			fr.panicAt(ag, "nil pointer dereference", pos)
			continue
		}
		fr.wpg = ag
		al.obj.val = fr.writePath(al.obj.val, al.path, v, relaxGuard(al.obj, ag), pos)
		fr.wpg = nil
	}
}

// relaxGuard: a write under guard g into an object that only exists when its allocation guard holds needs no
// guard if the allocation guard implies g (syntactically evident cases only).
func relaxGuard(o *Object, g *Term) *Term {
	if o == nil || o.allocG == nil || g == True {
		return g
	}
	if impliesSyn(o.allocG, g) {
		return True
	}
	return g
}

func impliesSyn(a, g *Term) bool {
	if a == g || g == True {
		return true
	}
	conj := func(t *Term) []*Term {
		if t.op == "and" {
			return t.args
		}
		return []*Term{t}
	}
	as := map[int]bool{}
	for _, c := range conj(a) {
		as[c.id] = true
	}
	for _, c := range conj(g) {
		if !as[c.id] {
			return false
		}
	}
	return true
}

func (fr *frame) writePath(cur Value, path []PathElem, v Value, g *Term, pos token.Pos) Value {
	if len(path) == 0 {
		if cur == nil {
			return v
		}
		return iteVal(g, v, cur)
	}
	pe := path[0]
	if pe.idx == nil {
		s := cur.(StructV)
		n := StructV{f: append([]Value(nil), s.f...)}
		n.f[pe.field] = fr.writePath(s.f[pe.field], path[1:], v, g, pos)
		return n
	}
	if _, abs := cur.(AbstractArr); abs {
		return cur
	}
	arr := cur.(ArrayV)
	n := ArrayV{e: append([]Value(nil), arr.e...)}
	if pe.idx.konst {
		if pe.idx.val >= uint64(len(arr.e)) {
			fr.panicAt(fr.wg(g), "index out of range", pos)
			return cur
		}
		n.e[pe.idx.val] = fr.writePath(arr.e[pe.idx.val], path[1:], v, g, pos)
		return n
	}
	fr.panicAt(And(fr.wg(g), Not(Cmp("bvult", pe.idx, BV(IntW, uint64(len(arr.e)))))), "index out of range", pos)
	for k := range arr.e {
		c := Eq(pe.idx, BV(IntW, uint64(k)))
		if c == False {
			continue
		}
		n.e[k] = fr.writePath(arr.e[k], path[1:], v, And(g, c), pos)
	}
	return n
}

func extendPath(p PtrV, pe PathElem) PtrV {
	var r PtrV
	for _, al := range p.alts {
		na := PtrAlt{g: al.g, obj: al.obj}
		if al.obj != nil {
			na.path = append(append([]PathElem(nil), al.path...), pe)
		}
		r.alts = append(r.alts, na)
	}
	return r
}

func sliceLen(s SliceV) *Term {
	var acc *Term
	for _, al := range s.alts {
		if acc == nil {
			acc = al.ln
		} else {
			acc = Ite(al.g, al.ln, acc)
		}
	}
	if acc == nil {
		return BV(IntW, 0)
	}
	return acc
}

func sliceCap(s SliceV) *Term {
	var acc *Term
	for _, al := range s.alts {
		if acc == nil {
			acc = al.cap
		} else {
			acc = Ite(al.g, al.cap, acc)
		}
	}
	if acc == nil {
		return BV(IntW, 0)
	}
	return acc
}

// sliceElem reads element i (term) of the slice (no bounds obligation).
func (fr *frame) sliceElem(s SliceV, i *Term, g *Term, pos token.Pos) Value {
	var acc Value
	for _, al := range s.alts {
		if al.obj == nil || !feasible(And(g, al.g)) {
			continue
		}
		v := fr.readPath(al.obj.val, []PathElem{{idx: BinBV("bvadd", al.off, i)}}, False, pos)
		if acc == nil {
			acc = v
		} else {
			acc = iteVal(al.g, v, acc)
		}
	}
	return acc
}

func (fr *frame) sliceStore(s SliceV, i *Term, v Value, g *Term, pos token.Pos) {
	for _, al := range s.alts {
		ag := And(g, al.g)
		if al.obj == nil || !feasible(ag) {
			continue
		}
		fr.wpg = ag
		al.obj.val = fr.writePath(al.obj.val, []PathElem{{idx: BinBV("bvadd", al.off, i)}}, v, relaxGuard(al.obj, ag), pos)
		fr.wpg = nil
	}
}

// boundOf returns a concrete upper bound for a length term.
func (fr *frame) boundOf(n *Term, g *Term, what string, pos token.Pos) int {
	if m, ok := maxConst(n); ok && m <= 4096 {
		return int(m)
	}
	if fr.e.abstractBig {
		return -1
	}
	// symbolic, unbounded: use the default capacity and record a limit obligation
	c := fr.e.defaultCap
	fr.e.addOblig("limit", what+" exceeds the engine's capacity bound", fr.e.posStr(pos, fr.fn), And(g, Not(Cmp("bvule", n, BV(IntW, uint64(c))))))
	return c
}

func (fr *frame) newArray(et types.Type, n int) *Object {
	a := ArrayV{}
	z := zero(et)
	for i := 0; i < n; i++ {
		a.e = append(a.e, z)
	}
	return newObject(a)
}

// ---------- strings ----------

func strIndex(s StringV, i *Term) *Term {
	if i.konst {
		if int(i.val) < len(s.b) {
			return s.b[i.val]
		}
		return BV(8, 0)
	}
	acc := BV(8, 0)
	for k := len(s.b) - 1; k >= 0; k-- {
		acc = Ite(Eq(i, BV(IntW, uint64(k))), s.b[k], acc)
	}
	return acc
}

// strSub returns s[lo:hi] (bounds already checked).
func strSub(s StringV, lo, hi *Term) StringV {
	n := BinBV("bvsub", hi, lo)
	if lo.konst {
		l := int(lo.val)
		if l < 0 || l > len(s.b) {
			l = len(s.b) // garbage offset on an infeasible path
		}
		b := s.b[l:]
		if m, ok := maxConst(n); ok && m < uint64(len(b)) {
			b = b[:m]
		}
		return StringV{b: b, n: n}
	}
	if lo.ctree {
		var acc Value
		for _, c := range ctreeCases(lo) {
			v := strSub(s, BV(IntW, c.v), hi)
			v.n = n
			if acc == nil {
				acc = v
			} else {
				acc = iteVal(c.g, v, acc)
			}
		}
		r := acc.(StringV)
		r.n = n
		return r
	}
	capN := len(s.b)
	if m, ok := maxConst(n); ok && m < uint64(capN) {
		capN = int(m)
	}
	r := StringV{n: n, b: make([]*Term, capN)}
	for j := 0; j < capN; j++ {
		r.b[j] = strIndex(s, BinBV("bvadd", lo, BV(IntW, uint64(j))))
	}
	return r
}

func strConcat(a, b StringV) StringV {
	if a.n.konst {
		k := int(a.n.val)
		if k < 0 || k > len(a.b) {
			k = len(a.b) // garbage length on an infeasible path
		}
		r := StringV{n: BinBV("bvadd", a.n, b.n)}
		r.b = append(append([]*Term(nil), a.b[:k]...), b.b...)
		return r
	}
	if a.n.ctree {
		var acc Value
		for _, c := range ctreeCases(a.n) {
			k := int(c.v)
			if k < 0 || k > len(a.b) {
				continue
			}
			v := StringV{n: BV(IntW, 0)}
			v.b = append(append([]*Term(nil), a.b[:k]...), b.b...)
			if acc == nil {
				acc = v
			} else {
				acc = iteVal(c.g, v, acc)
			}
		}
		if acc == nil {
			acc = StringV{n: BV(IntW, 0)}
		}
		r := acc.(StringV)
		r.n = BinBV("bvadd", a.n, b.n)
		return r
	}
	capN := len(a.b) + len(b.b)
	r := StringV{n: BinBV("bvadd", a.n, b.n), b: make([]*Term, capN)}
	for j := 0; j < capN; j++ {
		jt := BV(IntW, uint64(j))
		var av *Term = BV(8, 0)
		if j < len(a.b) {
			av = a.b[j]
		}
		r.b[j] = Ite(Cmp("bvult", jt, a.n), av, strIndex(b, BinBV("bvsub", jt, a.n)))
	}
	return r
}

// strLess: lexicographic a < b
func strLess(a, b StringV) *Term {
	n := len(a.b)
	if len(b.b) > n {
		n = len(b.b)
	}
	ab, bb := padStr(a, n), padStr(b, n)
	// from the end: less_k = at position k
	res := Cmp("bvult", a.n, b.n) // all compared bytes equal => shorter is less
	for k := n - 1; k >= 0; k-- {
		kt := BV(IntW, uint64(k))
		inA := Cmp("bvult", kt, a.n)
		inB := Cmp("bvult", kt, b.n)
		both := And(inA, inB)
		res = Ite(both, Ite(Eq(ab[k], bb[k]), res, Cmp("bvult", ab[k], bb[k])), Cmp("bvult", a.n, b.n))
	}
	return res
}

func (fr *frame) bytesToString(s SliceV, g *Term, pos token.Pos) StringV {
	n := sliceLen(s)
	capN := 0
	for _, al := range s.alts {
		if al.obj != nil {
			if l := arrLen(al.obj); l > capN {
				capN = l
			}
		}
	}
	if m, ok := maxConst(n); ok && m < uint64(capN) {
		capN = int(m)
	}
	r := StringV{n: n, b: make([]*Term, capN)}
	for j := 0; j < capN; j++ {
		v := fr.sliceElem(s, BV(IntW, uint64(j)), g, pos)
		if v == nil {
			r.b[j] = BV(8, 0)
		} else {
			r.b[j] = v.(*Term)
		}
	}
	return r
}

func (fr *frame) stringToBytes(s StringV) SliceV {
	a := ArrayV{}
	for _, b := range s.b {
		a.e = append(a.e, b)
	}
	obj := newObject(a)
	return SliceV{alts: []SliceAlt{{g: True, obj: obj, off: BV(IntW, 0), ln: s.n, cap: s.n}}}
}

// feasibleSMT asks a persistent solver whether guard g is satisfiable together with the assumptions made so far.
// Only a definite "unsat" prunes; unknown, timeouts and errors keep the path. (Dead-work pruning only: an
// iteration that is cut here would have contributed obligations with an unsatisfiable guard.)
func (e *Engine) feasibleSMT(g *Term) bool {
	if e.noFeas || g == True {
		return true
	}
	if g.op == "var" || (g.op == "not" && g.args[0].op == "var") {
		return true
	}
	if e.feas == nil || e.feas.dead {
		p, err := startSolver("z3-new")
		if err != nil {
			e.noFeas = true
			return true
		}
		e.feas = p
		e.feasAsserted = 0
	}
	t0 := time.Now()
	p := e.feas
	// assumptions are asserted permanently (they only grow)
	p.sb.Reset()
	var pre strings.Builder
	for ; e.feasAsserted < len(e.assumes); e.feasAsserted++ {
		n := p.em.emit(e.assumes[e.feasAsserted])
		pre.WriteString(p.sb.String())
		p.sb.Reset()
		fmt.Fprintf(&pre, "(assert %s)\n", n)
	}
	if pre.Len() > 0 {
		if _, err := p.exchange(pre.String(), 30*time.Second); err != nil {
			return true
		}
	}
	qms := 1500
	if e.feasQueryMs > 0 {
		qms = e.feasQueryMs
	}
	r := p.check([]*Term{g}, qms, false)
	e.feasN++
	e.feasSecs += time.Since(t0).Seconds()
	if r.verdict == "unsat" {
		e.feasCut++
		return false
	}
	return true
}

func (e *Engine) shadowEval(t *Term) uint64 {
	return evalTerm(t, e.shadowAsg, e.shadowMemo)
}

func (e *Engine) logShadow(fr *frame, ins ssa.Instruction, g *Term) {
	v, ok := ins.(ssa.Value)
	if !ok {
		return
	}
	if e.shadowEval(g) == 0 {
		return
	}
	val, ok := fr.env[v]
	if !ok {
		return
	}
	var desc string
	switch x := val.(type) {
	case *Term:
		desc = fmt.Sprint(e.shadowEval(x))
	case StringV:
		n := e.shadowEval(x.n)
		bs := []byte{}
		for i := 0; i < int(n) && i < len(x.b); i++ {
			bs = append(bs, byte(e.shadowEval(x.b[i])))
		}
		desc = fmt.Sprintf("%q", string(bs))
	case SliceV:
		for _, al := range x.alts {
			if e.shadowEval(al.g) == 1 {
				id := -1
				if al.obj != nil {
					id = 0
				}
				desc = fmt.Sprintf("slice(obj?%d off=%d len=%d cap=%d)", id, e.shadowEval(al.off), e.shadowEval(al.ln), e.shadowEval(al.cap))
			}
		}
	case PtrV:
		for _, al := range x.alts {
			if e.shadowEval(al.g) == 1 {
				if al.obj == nil {
					desc = "ptr(nil)"
				} else {
					desc = "ptr(obj)"
				}
			}
		}
	case IfaceV:
		for _, al := range x.alts {
			if e.shadowEval(al.g) == 1 {
				if al.typ == nil {
					desc = "iface(nil)"
				} else {
					desc = "iface(" + al.typ.String() + ")"
				}
			}
		}
	case TupleV:
		for _, c := range x {
			if t, ok := c.(*Term); ok {
				desc += fmt.Sprint(e.shadowEval(t)) + ","
			} else {
				desc += "_,"
			}
		}
	default:
		return
	}
	fmt.Fprintf(e.shadowLog, "%s %s = %s  :: %s\n", fr.fn.Name(), v.Name(), desc, ins.String())
}

// worthAsking throttles solver feasibility queries at loop headers when they rarely prune anything.
func (e *Engine) worthAsking(iter int) bool {
	if e.feasSecs > e.feasBudget {
		return false // budget for pruning queries used up: loops then end at their unwinding bound or by folding
	}
	if e.feasN >= 40 && e.feasCut*20 < e.feasN {
		return iter >= 4 && iter%4 == 0
	}
	return true
}
