package main

import (
	"fmt"
	"os"
	"strings"
	"go/token"
	"go/types"
	"math"

	"golang.org/x/tools/go/ssa"
)

func floatConst(f float64) Value { return BV(64, math.Float64bits(f)) }

func tupleElemType(t types.Type, i int) types.Type {
	if tup, ok := t.(*types.Tuple); ok {
		return tup.At(i).Type()
	}
	return t
}

func (fr *frame) execInstr(b *ssa.BasicBlock, ins ssa.Instruction, g *Term) *Term {
	e := fr.e
	switch x := ins.(type) {
	case *ssa.DebugRef:
	case *ssa.Alloc:
		obj := newObject(zero(x.Type().(*types.Pointer).Elem()))
		fr.set(x, g, PtrV{alts: []PtrAlt{{g: True, obj: obj}}})
	case *ssa.Store:
		fr.store(fr.get(x.Addr).(PtrV), fr.get(x.Val), g, x.Pos())
	case *ssa.UnOp:
		switch x.Op {
		case token.MUL:
			v := fr.load(fr.get(x.X).(PtrV), g, x.Pos())
			if v == nil {
				// definitely nil on this path: path ends
				return False
			}
			fr.set(x, g, v)
		case token.NOT:
			fr.set(x, g, Not(fr.get(x.X).(*Term)))
		case token.SUB:
			if isFloat(x.X.Type()) {
				abort("float negation unsupported at %s", e.posStr(x.Pos(), fr.fn))
			}
			fr.set(x, g, BVNeg(fr.get(x.X).(*Term)))
		case token.XOR:
			fr.set(x, g, BVNot(fr.get(x.X).(*Term)))
		case token.ARROW:
			v, ok, ng := fr.chanRecv(fr.get(x.X).(ChanV), x.X.Type().Underlying().(*types.Chan).Elem(), g, x.Pos())
			if x.CommaOk {
				fr.set(x, g, TupleV{v, ok})
			} else {
				fr.set(x, g, v)
			}
			return ng
		default:
			abort("unop %s", x.Op.String())
		}
	case *ssa.FieldAddr:
		fr.set(x, g, extendPath(fr.get(x.X).(PtrV), PathElem{field: x.Field}))
	case *ssa.Field:
		fr.set(x, g, fr.get(x.X).(StructV).f[x.Field])
	case *ssa.IndexAddr:
		idx := fr.intTerm(x.Index)
		switch base := fr.get(x.X).(type) {
		case PtrV: // pointer to array
			fr.set(x, g, extendPath(base, PathElem{idx: idx}))
		case SliceV:
			var r PtrV
			for _, al := range base.alts {
				ag := And(g, al.g)
				if !feasible(ag) {
					continue
				}
				if al.obj == nil {
					fr.panicAt(ag, "index out of range", x.Pos())
					continue
				}
				fr.panicAt(And(ag, Not(Cmp("bvult", idx, al.ln))), "index out of range", x.Pos())
				r.alts = append(r.alts, PtrAlt{g: al.g, obj: al.obj, path: []PathElem{{idx: BinBV("bvadd", al.off, idx)}}})
			}
			if len(r.alts) == 0 {
				return False
			}
			fr.set(x, g, r)
		default:
			abort("IndexAddr on %T", base)
		}
	case *ssa.Index:
		idx := fr.intTerm(x.Index)
		switch base := fr.get(x.X).(type) {
		case ArrayV:
			fr.set(x, g, fr.readPath(base, []PathElem{{idx: idx}}, g, x.Pos()))
		case StringV:
			fr.panicAt(And(g, Not(Cmp("bvult", idx, base.n))), "index out of range", x.Pos())
			fr.set(x, g, strIndex(base, idx))
		default:
			abort("Index on %T", base)
		}
	case *ssa.Lookup:
		switch base := fr.get(x.X).(type) {
		case StringV:
			idx := fr.intTerm(x.Index)
			fr.panicAt(And(g, Not(Cmp("bvult", idx, base.n))), "index out of range", x.Pos())
			fr.set(x, g, strIndex(base, idx))
		case MapV:
			vt := x.Type()
			if x.CommaOk {
				vt = tupleElemType(vt, 0)
			}
			val, found := fr.mapLookup(base, fr.get(x.Index), vt, g)
			if x.CommaOk {
				fr.set(x, g, TupleV{val, found})
			} else {
				fr.set(x, g, val)
			}
		default:
			abort("Lookup on %T", base)
		}
	case *ssa.Slice:
		return fr.execSlice(x, g)
	case *ssa.BinOp:
		v, ng := fr.binop(x, g)
		fr.set(x, g, v)
		return ng
	case *ssa.Phi:
		abort("phi after non-phi")
	case *ssa.MakeMap:
		mt := x.Type().Underlying().(*types.Map)
		nObjects++
		fr.set(x, g, MapV{alts: []MapAlt{{g: True, m: &MapObj{id: nObjects, kt: mt.Key(), vt: mt.Elem()}}}})
	case *ssa.MapUpdate:
		mv := fr.get(x.Map).(MapV)
		key, val := fr.get(x.Key), fr.get(x.Value)
		for _, al := range mv.alts {
			ag := And(g, al.g)
			if !feasible(ag) {
				continue
			}
			if al.m == nil {
				fr.panicAt(ag, "assignment to entry in nil map", x.Pos())
				continue
			}
			al.m.slots = append(al.m.slots, MapSlot{key: key, val: val, live: ag})
		}
	case *ssa.MakeSlice:
		ln := fr.intTerm(x.Len)
		cp := fr.intTerm(x.Cap)
		st := x.Type().Underlying().(*types.Slice)
		fr.panicAt(And(g, Or(Cmp("bvslt", ln, BV(IntW, 0)), Cmp("bvslt", cp, ln))), "makeslice: len out of range", x.Pos())
		n := fr.boundOf(cp, g, "make([]T, n)", x.Pos())
		var obj *Object
		if n < 0 {
			obj = newObject(AbstractArr{})
		} else {
			obj = fr.newArray(st.Elem(), n)
		}
		fr.set(x, g, SliceV{alts: []SliceAlt{{g: True, obj: obj, off: BV(IntW, 0), ln: ln, cap: cp}}})
	case *ssa.MakeInterface:
		fr.set(x, g, IfaceV{alts: []IfaceAlt{{g: True, typ: x.X.Type(), val: fr.get(x.X)}}})
	case *ssa.ChangeInterface:
		fr.set(x, g, fr.get(x.X))
	case *ssa.ChangeType:
		fr.set(x, g, fr.get(x.X))
	case *ssa.Convert:
		fr.set(x, g, fr.convert(x, g))
	case *ssa.MultiConvert:
		abort("MultiConvert unsupported at %s", e.posStr(x.Pos(), fr.fn))
	case *ssa.SliceToArrayPointer:
		s := fr.get(x.X).(SliceV)
		n := x.Type().(*types.Pointer).Elem().Underlying().(*types.Array).Len()
		var r PtrV
		for _, al := range s.alts {
			if al.obj == nil {
				if n == 0 {
					r.alts = append(r.alts, PtrAlt{g: al.g})
				} else {
					fr.panicAt(And(g, al.g), "slice to array pointer: length", x.Pos())
				}
				continue
			}
			fr.panicAt(And(g, al.g, Cmp("bvult", al.ln, BV(IntW, uint64(n)))), "slice to array pointer: length", x.Pos())
			if !al.off.konst || al.off.val != 0 || arrLen(al.obj) != int(n) {
				abort("SliceToArrayPointer of a sub-slice unsupported")
			}
			r.alts = append(r.alts, PtrAlt{g: al.g, obj: al.obj})
		}
		fr.set(x, g, r)
	case *ssa.MakeClosure:
		fn := x.Fn.(*ssa.Function)
		var free []Value
		for _, b := range x.Bindings {
			free = append(free, fr.get(b))
		}
		fr.set(x, g, FuncV{alts: []FuncAlt{{g: True, fn: fn, free: free}}})
	case *ssa.MakeChan:
		nObjects++
		sz := fr.intTerm(x.Size)
		capN := 0
		if sz.konst {
			capN = int(sz.val)
		}
		ch := &ChanObj{id: nObjects, closed: False, et: x.Type().Underlying().(*types.Chan).Elem(), capN: capN}
		fr.set(x, g, ChanV{alts: []ChanAlt{{g: True, ch: ch}}})
	case *ssa.Send:
		return fr.chanSend(fr.get(x.Chan).(ChanV), fr.get(x.X), g, x.Pos())
	case *ssa.Select:
		return fr.execSelect(x, g)
	case *ssa.TypeAssert:
		return fr.typeAssert(x, g)
	case *ssa.Extract:
		fr.set(x, g, fr.get(x.Tuple).(TupleV)[x.Index])
	case *ssa.Range:
		fr.set(x, g, fr.makeIter(x, g))
	case *ssa.Next:
		fr.execNext(b, x, g)
	case *ssa.Call:
		return fr.call(x, &x.Call, g, x.Pos())
	case *ssa.Go:
		fr.goStmt(x, g)
	case *ssa.Defer:
		var fv Value
		var args []Value
		if x.Call.IsInvoke() {
			fv = fr.get(x.Call.Value)
		} else {
			fv = fr.get(x.Call.Value)
		}
		for _, a := range x.Call.Args {
			args = append(args, fr.get(a))
		}
		fr.defers = append(fr.defers, deferRec{g: g, call: x, fv: fv, args: args})
	case *ssa.RunDefers:
		// every return site has its own RunDefers; the paths through them are mutually exclusive,
		// so the recorded defers run at each site under that site's guard
		ds := fr.defers
		for i := len(ds) - 1; i >= 0; i-- {
			d := ds[i]
			dg := prune(And(g, d.g))
			if dg == False {
				continue
			}
			fr.callValue(&d.call.Call, d.fv, d.args, dg, d.call.Pos())
			// a deferred call that ends the path (panic) is not propagated; keep g
		}
	case *ssa.If:
		c := fr.get(x.Cond).(*Term)
		if sg, ok := fr.skipG[b]; ok {
			// map-range header: true edge only for visitable slots; otherwise continue with next slot
			delete(fr.skipG, b)
			fr.addEdge(b.Succs[0], b, And(g, c, sg))
			fr.addEdge(b, b, And(g, c, Not(sg)))
			fr.addEdge(b.Succs[1], b, And(g, Not(c)))
			break
		}
		fr.addEdge(b.Succs[0], b, And(g, c))
		fr.addEdge(b.Succs[1], b, And(g, Not(c)))
	case *ssa.Jump:
		fr.addEdge(b.Succs[0], b, g)
	case *ssa.Return:
		var v Value
		if len(x.Results) == 1 {
			v = fr.get(x.Results[0])
		} else if len(x.Results) > 1 {
			t := TupleV{}
			for _, r := range x.Results {
				t = append(t, fr.get(r))
			}
			v = t
		}
		fr.rets = append(fr.rets, retRec{g, v})
	case *ssa.Panic:
		label := "explicit panic"
		if e.tolerant == 0 {
			fr.e.addOblig("panic", label, e.posStr(x.Pos(), fr.fn), g)
		}
		return False
	default:
		abort("unsupported instruction %T: %s in %s", ins, ins, fr.fn)
	}
	return g
}

// intTerm returns the value of an integer-typed ssa value normalised to 64 bits (sign- or zero-extended).
func (fr *frame) intTerm(v ssa.Value) *Term {
	if v == nil {
		return nil
	}
	t := fr.get(v).(*Term)
	if t.w == IntW {
		return t
	}
	return Resize(t, IntW, isSigned(v.Type()))
}

func (fr *frame) execSlice(x *ssa.Slice, g *Term) *Term {
	pos := x.Pos()
	var lo, hi, max *Term
	if x.Low != nil {
		lo = fr.intTerm(x.Low)
	} else {
		lo = BV(IntW, 0)
	}
	if x.High != nil {
		hi = fr.intTerm(x.High)
	}
	if x.Max != nil {
		max = fr.intTerm(x.Max)
	}
	switch base := fr.get(x.X).(type) {
	case StringV:
		if hi == nil {
			hi = base.n
		}
		fr.panicAt(And(g, Or(Cmp("bvult", base.n, hi), Cmp("bvult", hi, lo))), "slice bounds out of range", pos)
		fr.set(x, g, strSub(base, lo, hi))
	case PtrV: // *[N]T -> []T
		var r SliceV
		for _, al := range base.alts {
			if al.obj == nil {
				fr.panicAt(And(g, al.g), "nil pointer dereference", pos)
				continue
			}
			if len(al.path) != 0 {
				abort("slice of nested array unsupported at %s", fr.e.posStr(pos, fr.fn))
			}
			n := BV(IntW, uint64(arrLen(al.obj)))
			h, m := hi, max
			if h == nil {
				h = n
			}
			if m == nil {
				m = n
			}
			fr.panicAt(And(g, al.g, Or(Cmp("bvult", n, m), Cmp("bvult", m, h), Cmp("bvult", h, lo))), "slice bounds out of range", pos)
			r.alts = append(r.alts, SliceAlt{g: al.g, obj: al.obj, off: lo, ln: BinBV("bvsub", h, lo), cap: BinBV("bvsub", m, lo)})
		}
		if len(r.alts) == 0 {
			return False
		}
		fr.set(x, g, r)
	case SliceV:
		var r SliceV
		for _, al := range base.alts {
			h, m := hi, max
			if h == nil {
				h = al.ln
			}
			if m == nil {
				m = al.cap
			}
			bad := Or(Cmp("bvult", al.cap, m), Cmp("bvult", m, h), Cmp("bvult", h, lo))
			fr.panicAt(And(g, al.g, bad), "slice bounds out of range", pos)
			if al.obj == nil {
				r.alts = append(r.alts, al)
				continue
			}
			r.alts = append(r.alts, SliceAlt{g: al.g, obj: al.obj, off: BinBV("bvadd", al.off, lo), ln: BinBV("bvsub", h, lo), cap: BinBV("bvsub", m, lo)})
		}
		fr.set(x, g, r)
	default:
		abort("Slice on %T", base)
	}
	return g
}

func (fr *frame) binop(x *ssa.BinOp, g *Term) (Value, *Term) {
	a, b := fr.get(x.X), fr.get(x.Y)
	if os.Getenv("VERIF_DEBUG_BINOP") != "" {
		if _, ok := a.(IfaceV); ok {
			if _, ok2 := b.(IfaceV); !ok2 {
				fmt.Fprintf(os.Stderr, "BINOP iface vs %T at %s in %s\n", b, fr.e.prog.Fset.Position(x.Pos()), x.Parent())
			}
		}
	}
	switch x.Op {
	case token.EQL:
		return eqVal(a, b), g
	case token.NEQ:
		return Not(eqVal(a, b)), g
	}
	if as, ok := a.(StringV); ok {
		bs := b.(StringV)
		switch x.Op {
		case token.ADD:
			return strConcat(as, bs), g
		case token.LSS:
			return strLess(as, bs), g
		case token.GTR:
			return strLess(bs, as), g
		case token.LEQ:
			return Not(strLess(bs, as)), g
		case token.GEQ:
			return Not(strLess(as, bs)), g
		}
		abort("string binop %s", x.Op)
	}
	at, aok := a.(*Term)
	bt, bok := b.(*Term)
	if !aok || !bok {
		abort("binop %s on %T", x.Op, a)
	}
	if isFloat(x.X.Type()) {
		abort("float arithmetic unsupported at %s (%s)", fr.e.posStr(x.Pos(), fr.fn), x.Op)
	}
	sg := isSigned(x.X.Type())
	switch x.Op {
	case token.ADD:
		return BinBV("bvadd", at, bt), g
	case token.SUB:
		return BinBV("bvsub", at, bt), g
	case token.MUL:
		return BinBV("bvmul", at, bt), g
	case token.QUO, token.REM:
		fr.panicAt(And(g, Eq(bt, BV(bt.w, 0))), "integer divide by zero", x.Pos())
		op := "bvudiv"
		if x.Op == token.REM {
			op = "bvurem"
		}
		if sg {
			op = "bvsdiv"
			if x.Op == token.REM {
				op = "bvsrem"
			}
		}
		return BinBV(op, at, bt), prune(And(g, Not(Eq(bt, BV(bt.w, 0)))))
	case token.AND:
		if at.w == 0 {
			return And(at, bt), g
		}
		return BinBV("bvand", at, bt), g
	case token.OR:
		if at.w == 0 {
			return Or(at, bt), g
		}
		return BinBV("bvor", at, bt), g
	case token.XOR:
		if at.w == 0 {
			return Not(Eq(at, bt)), g
		}
		return BinBV("bvxor", at, bt), g
	case token.AND_NOT:
		return BinBV("bvand", at, BVNot(bt)), g
	case token.SHL, token.SHR:
		w := at.w
		cnt := bt
		if isSigned(x.Y.Type()) {
			fr.panicAt(And(g, Cmp("bvslt", bt, BV(bt.w, 0))), "negative shift amount", x.Pos())
		}
		if cnt.w > w {
			big := Not(Cmp("bvult", cnt, BV(cnt.w, uint64(w))))
			cnt = Ite(big, BV(w, uint64(w)), Extract(cnt, w-1, 0))
		} else if cnt.w < w {
			cnt = ZExt(cnt, w)
		}
		if x.Op == token.SHL {
			return BinBV("bvshl", at, cnt), g
		}
		if sg {
			return BinBV("bvashr", at, cnt), g
		}
		return BinBV("bvlshr", at, cnt), g
	case token.LSS:
		if sg {
			return Cmp("bvslt", at, bt), g
		}
		return Cmp("bvult", at, bt), g
	case token.LEQ:
		if sg {
			return Cmp("bvsle", at, bt), g
		}
		return Cmp("bvule", at, bt), g
	case token.GTR:
		if sg {
			return Cmp("bvslt", bt, at), g
		}
		return Cmp("bvult", bt, at), g
	case token.GEQ:
		if sg {
			return Cmp("bvsle", bt, at), g
		}
		return Cmp("bvule", bt, at), g
	}
	abort("binop %s", x.Op.String())
	return nil, g
}

func (fr *frame) convert(x *ssa.Convert, g *Term) Value {
	v := fr.get(x.X)
	from, to := x.X.Type().Underlying(), x.Type().Underlying()
	if fb, ok := from.(*types.Basic); ok {
		if tb, ok := to.(*types.Basic); ok {
			switch {
			case fb.Info()&types.IsString != 0 && tb.Info()&types.IsString != 0:
				return v
			case fb.Info()&types.IsInteger != 0 && tb.Info()&types.IsInteger != 0:
				return Resize(v.(*Term), basicWidth(tb), fb.Info()&types.IsUnsigned == 0)
			case fb.Info()&types.IsInteger != 0 && tb.Info()&types.IsString != 0:
				t := v.(*Term)
				t = Resize(t, 32, fb.Info()&types.IsUnsigned == 0)
				// single byte (ASCII) only
				fr.e.addOblig("limit", "string(rune) with rune >= 0x80 not modelled", fr.e.posStr(x.Pos(), fr.fn), And(g, Not(Cmp("bvult", t, BV(32, 0x80)))))
				return StringV{b: []*Term{Extract(t, 7, 0)}, n: BV(IntW, 1)}
			case fb.Info()&types.IsFloat != 0 || tb.Info()&types.IsFloat != 0:
				t := v.(*Term)
				if t.op == "uf" && strings.HasPrefix(t.name, "durfloat.") && tb.Info()&types.IsInteger != 0 {
					// int64(d.Hours()) etc.: the float quotient truncates to q-1, q or q+1 where q = d / unit, and to exactly q
					// when the remainder is 0 (justified by the floating-point lemma of DESIGN.md section 4)
					unit := map[string]uint64{"Hours": 3600e9, "Minutes": 60e9, "Seconds": 1e9}[strings.TrimPrefix(t.name, "durfloat.")]
					d := t.args[0]
					u := BV(64, unit)
					q := BinBV("bvsdiv", d, u)
					r := BinBV("bvsrem", d, u)
					fr.e.selectN++
					x := Var(fmt.Sprintf("$durtrunc%d", fr.e.selectN), 64)
					c := And(Cmp("bvsle", BinBV("bvsub", q, BV(64, 1)), x), Cmp("bvsle", x, BinBV("bvadd", q, BV(64, 1))), Imp(Eq(r, BV(64, 0)), Eq(x, q)))
					fr.e.assumes = append(fr.e.assumes, Imp(g, c))
					return Resize(x, basicWidth(tb), true)
				}
				if t.konst && fb.Info()&types.IsInteger != 0 {
					return floatConst(float64(signed(t.val, t.w)))
				}
				if fb.Info()&types.IsFloat != 0 && tb.Info()&types.IsFloat != 0 {
					return t
				}
				abort("int<->float conversion unsupported at %s", fr.e.posStr(x.Pos(), fr.fn))
			case fb.Kind() == types.UnsafePointer || tb.Kind() == types.UnsafePointer:
				return v
			}
		}
		if fb.Kind() == types.UnsafePointer {
			return v
		}
		if ts, ok := to.(*types.Slice); ok && fb.Info()&types.IsString != 0 {
			if basicWidth(ts.Elem().Underlying().(*types.Basic)) != 8 {
				abort("string -> []rune unsupported")
			}
			return fr.stringToBytes(v.(StringV))
		}
	}
	if _, ok := from.(*types.Slice); ok {
		if tb, ok := to.(*types.Basic); ok && tb.Info()&types.IsString != 0 {
			return fr.bytesToString(v.(SliceV), g, x.Pos())
		}
	}
	if _, ok := from.(*types.Pointer); ok {
		return v
	}
	abort("convert %s -> %s unsupported at %s", from, to, fr.e.posStr(x.Pos(), fr.fn))
	return nil
}

// ---------- maps ----------

func (fr *frame) mapLookup(mv MapV, key Value, vt types.Type, g *Term) (Value, *Term) {
	found := False
	val := zero(vt)
	for _, al := range mv.alts {
		if al.m == nil || !feasible(And(g, al.g)) {
			continue
		}
		f := False
		v := zero(vt)
		for _, sl := range al.m.slots { // log order: later entries win
			hit := And(sl.live, eqVal(sl.key, key))
			if hit == False {
				continue
			}
			if prune(And(g, al.g, hit)) == False {
				continue
			}
			if sl.del {
				f = And(f, Not(hit))
			} else {
				f = Or(f, hit)
				v = iteVal(hit, sl.val, v)
			}
		}
		// a deleted entry yields the zero value
		v = iteVal(f, v, zero(vt))
		found = Ite(al.g, f, found)
		val = iteVal(al.g, v, val)
	}
	return val, found
}

// liveSlots computes, for each log entry, the condition under which it is the current binding of its key.
func (e *Engine) liveSlots(m *MapObj) []*Term {
	n := len(m.slots)
	res := make([]*Term, n)
	for i := 0; i < n; i++ {
		si := m.slots[i]
		if si.del {
			res[i] = False
			continue
		}
		c := si.live
		if !e.rangeNoDedupe || hasDeletes(m) {
			for j := i + 1; j < n && c != False; j++ {
				sj := m.slots[j]
				if e.rangeNoDedupe && !sj.del {
					continue
				}
				same := And(sj.live, eqVal(sj.key, si.key))
				if same == False {
					continue
				}
				c = And(c, Not(same))
			}
		}
		res[i] = c
	}
	return res
}

func hasDeletes(m *MapObj) bool {
	for _, s := range m.slots {
		if s.del {
			return true
		}
	}
	return false
}

func (fr *frame) mapLen(mv MapV, g *Term) *Term {
	var acc *Term
	for _, al := range mv.alts {
		n := BV(IntW, 0)
		if al.m != nil {
			// Under the NoDedupe option (maps observed as sets) duplicates of a key are counted once per log entry:
			// the result is exact for emptiness tests and an upper bound otherwise (stated as a cut for those harnesses).
			for _, c := range fr.e.liveSlots(al.m) {
				n = BinBV("bvadd", n, Ite(c, BV(IntW, 1), BV(IntW, 0)))
			}
		}
		if acc == nil {
			acc = n
		} else {
			acc = Ite(al.g, n, acc)
		}
	}
	return acc
}

func (fr *frame) makeIter(x *ssa.Range, g *Term) Value {
	switch base := fr.get(x.X).(type) {
	case StringV:
		s := base
		return IterV{it: &iterState{str: &s}}
	case MapV:
		it := &iterState{}
		for _, al := range base.alts {
			if al.m == nil || !feasible(And(g, al.g)) {
				continue
			}
			live := fr.e.liveSlots(al.m)
			for i, sl := range al.m.slots {
				c := prune(And(g, al.g, live[i]))
				if c == False {
					continue
				}
				it.slots = append(it.slots, iterSlot{visit: And(al.g, live[i]), key: sl.key, val: sl.val})
			}
		}
		return IterV{it: it}
	}
	abort("range over %T", fr.get(x.X))
	return nil
}

func (fr *frame) execNext(b *ssa.BasicBlock, x *ssa.Next, g *Term) {
	it := fr.get(x.Iter).(IterV).it
	tup := x.Type().(*types.Tuple)
	if x.IsString && fr.e.rangeUTF8 {
		// utf8.DecodeRuneInString at a symbolic byte offset
		s := it.str
		if it.posT == nil {
			it.posT = BV(IntW, 0)
		}
		idx := it.posT
		at := func(off uint64) (*Term, *Term) { // byte at idx+off, and whether it exists
			j := BinBV("bvadd", idx, BV(IntW, off))
			var b *Term = BV(8, 0)
			for k := len(s.b) - 1; k >= 0; k-- {
				b = Ite(Eq(j, BV(IntW, uint64(k))), s.b[k], b)
			}
			in := Cmp("bvult", j, s.n)
			if len(s.b) == 0 {
				in = False
			} else {
				in = And(in, Cmp("bvult", j, BV(IntW, uint64(len(s.b)))))
			}
			return b, in
		}
		rng := func(b *Term, lo, hi uint64) *Term {
			return And(Cmp("bvule", BV(8, lo), b), Cmp("bvule", b, BV(8, hi)))
		}
		b0, ok := at(0)
		b1, in1 := at(1)
		b2, in2 := at(2)
		b3, in3 := at(3)
		cont := func(b *Term) *Term { return rng(b, 0x80, 0xBF) }
		low := func(b *Term, mask uint64) *Term { return ZExt(BinBV("bvand", b, BV(8, mask)), 32) }
		sh := func(t *Term, n uint64) *Term { return BinBV("bvshl", t, BV(32, n)) }
		or := func(a, b *Term) *Term { return BinBV("bvor", a, b) }
		is1 := Cmp("bvult", b0, BV(8, 0x80))
		is2 := And(rng(b0, 0xC2, 0xDF), in1, cont(b1))
		b1ok3 := Ite(Eq(b0, BV(8, 0xE0)), rng(b1, 0xA0, 0xBF), Ite(Eq(b0, BV(8, 0xED)), rng(b1, 0x80, 0x9F), cont(b1)))
		is3 := And(rng(b0, 0xE0, 0xEF), in1, in2, b1ok3, cont(b2))
		b1ok4 := Ite(Eq(b0, BV(8, 0xF0)), rng(b1, 0x90, 0xBF), Ite(Eq(b0, BV(8, 0xF4)), rng(b1, 0x80, 0x8F), cont(b1)))
		is4 := And(rng(b0, 0xF0, 0xF4), in1, in2, in3, b1ok4, cont(b2), cont(b3))
		r2 := or(sh(low(b0, 0x1F), 6), low(b1, 0x3F))
		r3 := or(or(sh(low(b0, 0x0F), 12), sh(low(b1, 0x3F), 6)), low(b2, 0x3F))
		r4 := or(or(sh(low(b0, 0x07), 18), sh(low(b1, 0x3F), 12)), or(sh(low(b2, 0x3F), 6), low(b3, 0x3F)))
		r := Ite(is1, ZExt(b0, 32), Ite(is2, r2, Ite(is3, r3, Ite(is4, r4, BV(32, 0xFFFD)))))
		w := Ite(is1, BV(IntW, 1), Ite(is2, BV(IntW, 2), Ite(is3, BV(IntW, 3), Ite(is4, BV(IntW, 4), BV(IntW, 1)))))
		it.posT = BinBV("bvadd", idx, w)
		fr.set(x, g, TupleV{ok, idx, r})
		return
	}
	if x.IsString {
		s := it.str
		k := it.pos
		it.pos++
		ok := Cmp("bvult", BV(IntW, uint64(k)), s.n)
		var bt *Term = BV(8, 0)
		if k < len(s.b) {
			bt = s.b[k]
		} else {
			ok = False
		}
		fr.e.addOblig("limit", "range over string with non-ASCII byte not modelled", fr.e.posStr(x.Pos(), fr.fn), And(g, ok, Not(Cmp("bvult", bt, BV(8, 0x80)))))
		fr.set(x, g, TupleV{ok, BV(IntW, uint64(k)), ZExt(bt, 32)})
		return
	}
	k := it.pos
	it.pos++
	if k >= len(it.slots) {
		fr.set(x, g, TupleV{False, zero(tup.At(1).Type()), zero(tup.At(2).Type())})
		return
	}
	sl := it.slots[k]
	if fr.skipG == nil {
		fr.skipG = map[*ssa.BasicBlock]*Term{}
	}
	// the block must end in If on the ok flag (go/ssa's rangeiter.loop shape)
	if _, isIf := b.Instrs[len(b.Instrs)-1].(*ssa.If); !isIf {
		abort("map range header without If in %s", fr.fn)
	}
	fr.skipG[b] = sl.visit
	fr.set(x, g, TupleV{True, sl.key, sl.val})
}

// ---------- type assertions ----------

func implements(t types.Type, it *types.Interface) bool {
	return types.Implements(t, it)
}

func (fr *frame) typeAssert(x *ssa.TypeAssert, g *Term) *Term {
	iv := fr.get(x.X).(IfaceV)
	at := x.AssertedType
	ait, toIface := at.Underlying().(*types.Interface)
	okc := False
	var res Value
	for _, al := range iv.alts {
		if al.typ == nil {
			continue
		}
		var match bool
		if toIface {
			match = implements(al.typ, ait)
		} else {
			match = types.Identical(al.typ, at)
		}
		if !match {
			continue
		}
		okc = Or(okc, al.g)
		var v Value
		if toIface {
			v = IfaceV{alts: []IfaceAlt{{g: True, typ: al.typ, val: al.val}}}
		} else {
			v = al.val
		}
		if res == nil {
			res = v
		} else {
			res = iteVal(al.g, v, res)
		}
	}
	if res == nil {
		res = zero(at)
	}
	if x.CommaOk {
		if !toIface {
			res = iteVal(okc, res, zero(at))
		} else {
			res = iteVal(okc, res, nilIface())
		}
		fr.set(x, g, TupleV{res, okc})
		return g
	}
	fr.panicAt(And(g, Not(okc)), "interface conversion (type assertion failed)", x.Pos())
	ng := prune(And(g, okc))
	if ng == False {
		return False
	}
	fr.set(x, g, res)
	return ng
}

var _ = fmt.Sprintf
