package main

import (
	"fmt"
	"go/token"
	"go/types"
	"strconv"
	"strings"

	"golang.org/x/tools/go/ssa"
)

// ---------- nondeterministic inputs ----------

func (e *Engine) regNondet(key string, t *Term, w int, sgn bool) {
	if _, ok := e.nondets[key]; !ok {
		e.nondets[key] = &Nondet{key: key, term: t, w: w, sgn: sgn}
		e.nondetOrder = append(e.nondetOrder, key)
	}
}

// nondetRange: value in [lo,hi] as an ite-tree of constants over fresh Booleans (folds in guards).
func (e *Engine) nondetRange(key string, lo, hi int64, w int) *Term {
	if nd, ok := e.nondets[key]; ok {
		return nd.term
	}
	if pv, ok := e.pinCase[key]; ok && e.pin == nil {
		if pv < lo || pv > hi {
			abort("skip-case")
		}
		t := BV(w, uint64(pv))
		e.regNondet(key, t, w, true)
		return t
	}
	if e.pin != nil {
		v := e.pin[key]
		if v < lo {
			v = lo
		}
		if v > hi {
			v = hi
		}
		t := BV(w, uint64(v))
		e.regNondet(key, t, w, true)
		return t
	}
	if hi < lo {
		abort("nondet %s: empty range [%d,%d]", key, lo, hi)
	}
	if hi-lo > 4096 {
		abort("nondet %s: range too large for a constant tree; use a full-width nondet", key)
	}
	var build func(lo, hi int64, depth int) *Term
	build = func(lo, hi int64, depth int) *Term {
		if lo == hi {
			return BV(w, uint64(lo))
		}
		mid := lo + (hi-lo)/2
		b := Var(fmt.Sprintf("%s!b%d", key, depth), 0)
		return Ite(b, build(mid+1, hi, depth+1), build(lo, mid, depth+1))
	}
	t := build(lo, hi, 0)
	e.regNondet(key, t, w, true)
	if e.shadow != nil {
		want := e.shadow[key]
		if want < lo {
			want = lo
		}
		if want > hi {
			want = hi
		}
		l, h := lo, hi
		for d := 0; l != h; d++ {
			mid := l + (h-l)/2
			bn := fmt.Sprintf("%s!b%d", key, d)
			if want > mid {
				e.shadowAsg[bn] = 1
				l = mid + 1
			} else {
				e.shadowAsg[bn] = 0
				h = mid
			}
		}
	}
	return t
}

func (e *Engine) nondetFull(key string, w int, sgn bool) *Term {
	if nd, ok := e.nondets[key]; ok {
		return nd.term
	}
	if pv, ok := e.pinCase[key]; ok && e.pin == nil {
		t := BV(w, uint64(pv))
		if w == 0 {
			t = Bool(pv != 0)
		}
		e.regNondet(key, t, w, sgn)
		return t
	}
	if e.pin != nil {
		t := BV(w, uint64(e.pin[key]))
		if w == 0 {
			t = Bool(e.pin[key] != 0)
		}
		e.regNondet(key, t, w, sgn)
		return t
	}
	t := Var(key, w)
	e.regNondet(key, t, w, sgn)
	if e.shadow != nil {
		e.shadowAsg[key] = uint64(e.shadow[key]) & mask64(w)
	}
	return t
}

func (e *Engine) nondetOf(key string, alphabet string, w int) *Term {
	if nd, ok := e.nondets[key]; ok {
		return nd.term
	}
	if len(alphabet) == 0 {
		abort("nondet %s: empty alphabet", key)
	}
	if e.pin != nil {
		b := byte(e.pin[key])
		if strings.IndexByte(alphabet, b) < 0 {
			b = alphabet[0]
		}
		t := BV(w, uint64(b))
		e.regNondet(key, t, w, false)
		return t
	}
	if e.shadow != nil {
		e.shadow[key+"!i"] = int64(strings.IndexByte(alphabet, byte(e.shadow[key])))
	}
	idx := e.nondetRange(key+"!i", 0, int64(len(alphabet)-1), IntW)
	// map idx tree to alphabet values
	var mapTree func(t *Term) *Term
	mapTree = func(t *Term) *Term {
		if t.konst {
			return BV(w, uint64(alphabet[t.val]))
		}
		return Ite(t.args[0], mapTree(t.args[1]), mapTree(t.args[2]))
	}
	t := mapTree(idx)
	e.regNondet(key, t, w, false)
	return t
}

func constString(v Value, what string) string {
	s, ok := v.(StringV)
	if !ok || !s.n.konst {
		abort("%s must be a constant string", what)
	}
	bs := make([]byte, s.n.val)
	for i := range bs {
		if !s.b[i].konst {
			abort("%s must be a constant string", what)
		}
		bs[i] = byte(s.b[i].val)
	}
	return string(bs)
}

func constInt(v Value, what string) int64 {
	t, ok := v.(*Term)
	if !ok || !t.konst {
		abort("%s must be a constant", what)
	}
	return signed(t.val, t.w)
}

// atIndex builds ite over k<n of mk(k) selected by idx.
func atIndex(idx *Term, n int64, mk func(k int64) Value) Value {
	if idx.konst {
		k := signed(idx.val, idx.w)
		if k < 0 || k >= n {
			abort("nondet index %d out of declared range %d", k, n)
		}
		return mk(k)
	}
	var acc Value
	for k := n - 1; k >= 0; k-- {
		c := Eq(idx, BV(idx.w, uint64(k)))
		if c == False {
			continue
		}
		v := mk(k)
		if acc == nil {
			acc = v
		} else {
			acc = iteVal(c, v, acc)
		}
	}
	if acc == nil {
		abort("nondet index: no feasible value")
	}
	return acc
}

func (e *Engine) intrinsic(fn *ssa.Function, args []Value, g *Term, pos token.Pos) (Value, *Term, bool) {
	name := fn.Name()
	resW := func() int {
		return widthOf(fn.Signature.Results().At(0).Type())
	}
	switch name {
	case "vBool":
		return e.nondetFull(constString(args[0], "vBool name"), 0, false), g, true
	case "vBoolAt":
		nm := constString(args[0], "name")
		n := constInt(args[2], "n")
		return atIndex(args[1].(*Term), n, func(k int64) Value { return e.nondetFull(fmt.Sprintf("%s#%d", nm, k), 0, false) }), g, true
	case "vInt":
		nm := constString(args[0], "name")
		return e.nondetRange(nm, constInt(args[1], "lo"), constInt(args[2], "hi"), IntW), g, true
	case "vIntAt":
		nm := constString(args[0], "name")
		n := constInt(args[2], "n")
		lo, hi := constInt(args[3], "lo"), constInt(args[4], "hi")
		return atIndex(args[1].(*Term), n, func(k int64) Value { return e.nondetRange(fmt.Sprintf("%s#%d", nm, k), lo, hi, IntW) }), g, true
	case "vByte", "vU8":
		return e.nondetFull(constString(args[0], "name"), 8, false), g, true
	case "vByteAt":
		nm := constString(args[0], "name")
		n := constInt(args[2], "n")
		return atIndex(args[1].(*Term), n, func(k int64) Value { return e.nondetFull(fmt.Sprintf("%s#%d", nm, k), 8, false) }), g, true
	case "vByteOf":
		return e.nondetOf(constString(args[0], "name"), constString(args[1], "alphabet"), 8), g, true
	case "vByteOfAt":
		nm := constString(args[0], "name")
		n := constInt(args[2], "n")
		al := constString(args[3], "alphabet")
		return atIndex(args[1].(*Term), n, func(k int64) Value { return e.nondetOf(fmt.Sprintf("%s#%d", nm, k), al, 8) }), g, true
	case "vI32", "vU32", "vI64", "vU64", "vU16", "vI16":
		return e.nondetFull(constString(args[0], "name"), resW(), name[1] == 'I'), g, true
	case "vI64At":
		nm := constString(args[0], "name")
		n := constInt(args[2], "n")
		return atIndex(args[1].(*Term), n, func(k int64) Value { return e.nondetFull(fmt.Sprintf("%s#%d", nm, k), 64, true) }), g, true
	case "vBytes", "vBytesOf", "vString", "vStringOf":
		nm := constString(args[0], "name")
		maxLen := constInt(args[1], "maxLen")
		alpha := ""
		if strings.HasSuffix(name, "Of") {
			alpha = constString(args[2], "alphabet")
		}
		n := e.nondetRange(nm+".len", 0, maxLen, IntW)
		bs := make([]*Term, maxLen)
		for i := range bs {
			k := fmt.Sprintf("%s[%d]", nm, i)
			if alpha != "" {
				bs[i] = e.nondetOf(k, alpha, 8)
			} else {
				bs[i] = e.nondetFull(k, 8, false)
			}
		}
		if strings.HasPrefix(name, "vString") {
			return StringV{b: bs, n: n}, g, true
		}
		a := ArrayV{}
		for _, b := range bs {
			a.e = append(a.e, b)
		}
		return SliceV{alts: []SliceAlt{{g: True, obj: newObject(a), off: BV(IntW, 0), ln: n, cap: n}}}, g, true
	case "vAssume":
		c := args[0].(*Term)
		e.assumes = append(e.assumes, Imp(g, c))
		return nil, prune(And(g, c)), true
	case "vAssert":
		c := args[0].(*Term)
		label := constString(args[1], "vAssert label")
		e.addOblig("assert", label, e.posStr(pos, nil), And(g, Not(c)))
		return nil, g, true
	case "vReach":
		label := constString(args[0], "vReach label")
		e.addOblig("witness", label, e.posStr(pos, nil), g)
		return nil, g, true
	case "vTrace":
		e.traces = append(e.traces, traceRec{constString(args[0], "label"), And(g, args[1].(*Term)), g})
		return nil, g, true
	case "vSkipCase":
		c := args[0].(*Term)
		if c == True {
			abort("skip-case")
		}
		if c != False {
			abort("vSkipCase: condition is not decided by the case-split values")
		}
		return nil, g, true
	case "vNative":
		return False, g, true
	case "vBlock":
		return nil, False, true
	case "vRunSpawned":
		i := constInt(args[0], "spawn index")
		if int(i) >= len(e.spawned) {
			return nil, g, true
		}
		sp := e.spawned[i]
		if sp.done {
			return nil, g, true
		}
		sp.done = true
		sg := prune(And(g, sp.g))
		if sg != False {
			fr := &frame{e: e}
			_ = fr
			for _, al := range sp.fv.alts {
				ag := prune(And(sg, al.g))
				if ag == False || al.fn == nil {
					continue
				}
				e.callFn(al.fn, sp.args, al.free, ag, pos)
			}
		}
		return nil, g, true
	case "vSpawnedCount":
		return BV(IntW, uint64(len(e.spawned))), g, true
	}
	return nil, nil, false
}

// ---------- library intrinsics ----------

func (e *Engine) ptrLoad(p Value, g *Term, pos token.Pos) Value {
	fr := &frame{e: e}
	return fr.load(p.(PtrV), g, pos)
}

func (e *Engine) ptrStore(p Value, v Value, g *Term, pos token.Pos) {
	fr := &frame{e: e}
	fr.store(p.(PtrV), v, g, pos)
}

func (e *Engine) libIntrinsic(fn *ssa.Function, key string, args []Value, g *Term, pos token.Pos) (Value, *Term, bool) {
	pkg := ""
	if fn.Pkg != nil {
		pkg = fn.Pkg.Pkg.Path()
	} else if o := fn.Origin(); o != nil && o.Pkg != nil {
		pkg = o.Pkg.Pkg.Path()
	}
	switch pkg {
	case "sync/atomic":
		if fn.Blocks != nil || fn.Signature.Recv() != nil {
			break // Go-level wrappers (atomic.Int32 methods) run from SSA
		}
		n := fn.Name()
		switch {
		case strings.HasPrefix(n, "Load"):
			return e.ptrLoad(args[0], g, pos), g, true
		case strings.HasPrefix(n, "Store"):
			e.ptrStore(args[0], args[1], g, pos)
			return nil, g, true
		case strings.HasPrefix(n, "Add"):
			old := e.ptrLoad(args[0], g, pos).(*Term)
			nv := BinBV("bvadd", old, args[1].(*Term))
			e.ptrStore(args[0], nv, g, pos)
			return nv, g, true
		case strings.HasPrefix(n, "Swap"):
			old := e.ptrLoad(args[0], g, pos)
			e.ptrStore(args[0], args[1], g, pos)
			return old, g, true
		case strings.HasPrefix(n, "CompareAndSwap"):
			old := e.ptrLoad(args[0], g, pos)
			eq := eqVal(old, args[1])
			e.ptrStore(args[0], args[2], And(g, eq), pos)
			return eq, g, true
		}
	case "sync":
		switch key {
		case "(*sync.Mutex).Lock", "(*sync.Mutex).Unlock", "(*sync.RWMutex).Lock", "(*sync.RWMutex).Unlock",
			"(*sync.RWMutex).RLock", "(*sync.RWMutex).RUnlock":
			return nil, g, true
		case "(*sync.Mutex).TryLock", "(*sync.RWMutex).TryLock":
			return True, g, true
		case "(*sync.WaitGroup).Add", "(*sync.WaitGroup).Done", "(*sync.WaitGroup).Wait":
			return e.waitGroup(fn.Name(), args, g, pos)
		}
	case "bytes":
		if r, ng, ok := e.bytesBuffer(fn, key, args, g, pos); ok {
			return r, ng, true
		}
	case "strings":
		if r, ng, ok := e.stringsBuilder(fn, key, args, g, pos); ok {
			return r, ng, true
		}
	case "runtime":
		switch fn.Name() {
		case "Gosched", "KeepAlive", "SetFinalizer":
			return nil, g, true
		}
	case "time":
		switch key {
		case "time.After":
			nObjects++
			e.selectN++
			ch := &ChanObj{id: nObjects, closed: False, timer: true, ready: Var(fmt.Sprintf("$timer%d", e.selectN), 0), et: fn.Signature.Results().At(0).Type().Underlying().(*types.Chan).Elem()}
			return ChanV{alts: []ChanAlt{{g: True, ch: ch}}}, g, true
		case "time.Now":
			return zero(fn.Signature.Results().At(0).Type()), g, true
		case "time.Since":
			e.selectN++
			return e.nondetFull(fmt.Sprintf("$since%d", e.selectN), 64, true), g, true
		case "time.Sleep":
			return nil, g, true
		case "(time.Duration).Hours", "(time.Duration).Minutes", "(time.Duration).Seconds":
			// float accessor: kept symbolic; int64(d.Hours()) is summarised at the conversion (see convert)
			return UF("durfloat."+fn.Name(), 64, args[0].(*Term)), g, true
		}
	case "errors":
		switch key {
		case "errors.New":
			return e.newError(args[0].(StringV), nil), g, true
		case "errors.Is":
			return e.errorsIs(args[0].(IfaceV), args[1].(IfaceV), g, pos), g, true
		case "errors.As":
			return e.errorsAs(args[0].(IfaceV), args[1].(IfaceV), g, pos), g, true
		}
	case "fmt":
		switch key {
		case "fmt.Errorf":
			return e.fmtErrorf(args, g, pos), g, true
		case "fmt.Sprintf":
			return e.sprintf(constStrOr(args[0]), args[1].(SliceV), g, pos), g, true
		case "fmt.Sprint", "fmt.Sprintln":
			return constStr("<sprint>"), g, true
		case "fmt.Fprintf", "fmt.Fprintln", "fmt.Fprint", "fmt.Printf", "fmt.Println", "fmt.Print":
			if e.tolerant == 0 && key[4] == 'F' {
				// writing to an arbitrary io.Writer is only a no-op for the std streams
				if iv, ok := args[0].(IfaceV); ok {
					for _, al := range iv.alts {
						if al.typ != nil && al.typ.String() != "*os.File" {
							return nil, nil, false
						}
					}
				}
			}
			return TupleV{BV(IntW, 0), nilIface()}, g, true
		}
	}
	return nil, nil, false
}

func constStrOr(v Value) string {
	s, ok := v.(StringV)
	if !ok || !s.n.konst {
		return "<?>"
	}
	bs := make([]byte, s.n.val)
	for i := range bs {
		if !s.b[i].konst {
			return "<?>"
		}
		bs[i] = byte(s.b[i].val)
	}
	return string(bs)
}

// newError builds *fmt.wrapError (if wrapped != nil) or *errors.errorString.
func (e *Engine) newError(msg StringV, wrapped Value) Value {
	if wrapped == nil {
		p := e.prog.ImportedPackage("errors")
		et := types.NewPointer(p.Type("errorString").Type())
		obj := newObject(StructV{f: []Value{msg}})
		return IfaceV{alts: []IfaceAlt{{g: True, typ: et, val: PtrV{alts: []PtrAlt{{g: True, obj: obj}}}}}}
	}
	p := e.prog.ImportedPackage("fmt")
	if p == nil {
		abort("fmt not loaded")
	}
	et := types.NewPointer(p.Type("wrapError").Type())
	obj := newObject(StructV{f: []Value{msg, wrapped}})
	return IfaceV{alts: []IfaceAlt{{g: True, typ: et, val: PtrV{alts: []PtrAlt{{g: True, obj: obj}}}}}}
}

type fmtVerb struct {
	lit  string // literal text before the verb
	verb byte   // 0 at the end
}

func parseFormat(f string) []fmtVerb {
	var out []fmtVerb
	var lit strings.Builder
	for i := 0; i < len(f); i++ {
		if f[i] != '%' {
			lit.WriteByte(f[i])
			continue
		}
		i++
		if i < len(f) && f[i] == '%' {
			lit.WriteByte('%')
			continue
		}
		for i < len(f) && strings.IndexByte("+-# 0123456789.*[]", f[i]) >= 0 {
			i++
		}
		if i < len(f) {
			out = append(out, fmtVerb{lit.String(), f[i]})
			lit.Reset()
		}
	}
	out = append(out, fmtVerb{lit.String(), 0})
	return out
}

func (e *Engine) variadicArgs(s SliceV, g *Term, pos token.Pos) []Value {
	fr := &frame{e: e}
	n := sliceLen(s)
	if !n.konst {
		abort("variadic argument list of symbolic length")
	}
	var out []Value
	for i := 0; i < int(n.val); i++ {
		out = append(out, fr.sliceElem(s, BV(IntW, uint64(i)), g, pos))
	}
	return out
}

func (e *Engine) fmtErrorf(args []Value, g *Term, pos token.Pos) Value {
	format := constStrOr(args[0])
	va := e.variadicArgs(args[1].(SliceV), g, pos)
	var wrapped Value
	k := 0
	for _, v := range parseFormat(format) {
		if v.verb == 0 {
			break
		}
		if v.verb == 'w' && k < len(va) {
			wrapped = va[k]
		}
		k++
	}
	msg := e.sprintfVals(format, va, g, pos)
	return e.newError(msg, wrapped)
}

func (e *Engine) sprintf(format string, s SliceV, g *Term, pos token.Pos) Value {
	return e.sprintfVals(format, e.variadicArgs(s, g, pos), g, pos)
}

// sprintfVals renders what it can exactly (%s/%v of strings, %d/%v of constants, %q of strings as-is with quotes);
// anything else becomes the marker "<?>" (text of messages is not the subject of any check).
func (e *Engine) sprintfVals(format string, va []Value, g *Term, pos token.Pos) StringV {
	if format == "<?>" {
		return constStr("<?>")
	}
	res := constStr("")
	k := 0
	for _, v := range parseFormat(format) {
		res = strConcat(res, constStr(v.lit))
		if v.verb == 0 {
			break
		}
		if k >= len(va) {
			res = strConcat(res, constStr("%!"+string(v.verb)+"(MISSING)"))
			continue
		}
		a := va[k]
		k++
		res = strConcat(res, e.fmtArg(v.verb, a, g, pos))
	}
	return res
}

func (e *Engine) fmtArg(verb byte, a Value, g *Term, pos token.Pos) StringV {
	iv, ok := a.(IfaceV)
	if !ok || len(iv.alts) != 1 || iv.alts[0].typ == nil {
		return constStr("<?>")
	}
	al := iv.alts[0]
	// fmt.Stringer / error: %s and %v print what String() / Error() return
	if verb == 's' || verb == 'v' {
		ms := e.prog.MethodSets.MethodSet(al.typ)
		for _, mname := range []string{"Error", "String"} {
			for i := 0; i < ms.Len(); i++ {
				sel := ms.At(i)
				if sel.Obj().Name() != mname {
					continue
				}
				sig := sel.Type().(*types.Signature)
				if sig.Params().Len() != 0 || sig.Results().Len() != 1 || !isString(sig.Results().At(0).Type()) {
					continue
				}
				fn := e.prog.MethodValue(sel)
				if fn == nil {
					continue
				}
				var res Value
				ok := func() (ok bool) {
					defer func() {
						if r := recover(); r != nil {
							if _, isAbort := r.(abortErr); isAbort {
								ok = false
								return
							}
							panic(r)
						}
					}()
					nOb := len(e.obligs)
					r, rg := e.callFn(fn, []Value{al.val}, nil, g, pos)
					// fmt recovers a panicking String()/Error() method and prints a PANIC marker instead:
					// panics inside this call are not failures of the code under test
					kept := e.obligs[:nOb]
					for _, o := range e.obligs[nOb:] {
						if o.kind != "panic" {
							kept = append(kept, o)
						}
					}
					e.obligs = kept
					if rg == False || r == nil {
						return false
					}
					if sv, isStr := r.(StringV); isStr && rg != True {
						r = iteVal(rg, sv, constStr("<?>"))
					}
					res = r
					return true
				}()
				if ok {
					if sv, isStr := res.(StringV); isStr {
						return sv
					}
				}
				return constStr("<?>")
			}
		}
	}
	switch v := al.val.(type) {
	case StringV:
		switch verb {
		case 's', 'v':
			return v
		case 'q':
			return strConcat(strConcat(constStr("\""), v), constStr("\""))
		}
	case *Term:
		if b, ok := al.typ.Underlying().(*types.Basic); ok && b.Info()&types.IsBoolean != 0 && (verb == 't' || verb == 'v') {
			return iteVal(v, constStr("true"), constStr("false")).(StringV)
		}
		if b, ok := al.typ.Underlying().(*types.Basic); ok && b.Info()&types.IsInteger != 0 && (verb == 'd' || verb == 'v') {
			if _, named := al.typ.(*types.Named); named && verb == 'v' {
				break // may have a String method
			}
			if v.konst {
				if b.Info()&types.IsUnsigned != 0 {
					return constStr(strconv.FormatUint(v.val, 10))
				}
				return constStr(strconv.FormatInt(signed(v.val, v.w), 10))
			}
			if v.ctree && v.leaves <= 64 {
				var acc Value
				for _, c := range ctreeCases(v) {
					var s StringV
					if b.Info()&types.IsUnsigned != 0 {
						s = constStr(strconv.FormatUint(c.v, 10))
					} else {
						s = constStr(strconv.FormatInt(signed(c.v, v.w), 10))
					}
					if acc == nil {
						acc = s
					} else {
						acc = iteVal(c.g, s, acc)
					}
				}
				return acc.(StringV)
			}
		}
	}
	return constStr("<?>")
}

const maxUnwrap = 4

func (e *Engine) unwrapOnce(cur IfaceV, g *Term, pos token.Pos) IfaceV {
	var next Value = nilIface()
	first := true
	for _, al := range cur.alts {
		var nv Value = nilIface()
		if al.typ != nil && prune(And(g, al.g)) != False {
			ms := e.prog.MethodSets.MethodSet(al.typ)
			var sel *types.Selection
			for i := 0; i < ms.Len(); i++ {
				if ms.At(i).Obj().Name() == "Unwrap" {
					sel = ms.At(i)
				}
			}
			if sel != nil {
				sig := sel.Type().(*types.Signature)
				if sig.Results().Len() == 1 && types.Identical(sig.Results().At(0).Type(), types.Universe.Lookup("error").Type()) {
					fn := e.prog.MethodValue(sel)
					r, rg := e.callFn(fn, []Value{al.val}, nil, And(g, al.g), pos)
					if rg != False && r != nil {
						nv = r
					}
				} else {
					abort("errors.Is/As: Unwrap() []error not modelled (%s)", al.typ)
				}
			}
		}
		if first {
			next, first = nv, false
		} else {
			next = iteVal(al.g, nv, next)
		}
	}
	return next.(IfaceV)
}

func (e *Engine) errorsIs(err, target IfaceV, g *Term, pos token.Pos) Value {
	res := False
	cur := err
	for d := 0; d < maxUnwrap; d++ {
		res = Or(res, eqVal(cur, target))
		for _, al := range cur.alts {
			if al.typ != nil && prune(And(g, al.g)) != False {
				ms := e.prog.MethodSets.MethodSet(al.typ)
				for i := 0; i < ms.Len(); i++ {
					if ms.At(i).Obj().Name() == "Is" {
						abort("errors.Is: custom Is method on %s not modelled", al.typ)
					}
				}
			}
		}
		cur = e.unwrapOnce(cur, g, pos)
		nonNil := False
		for _, al := range cur.alts {
			if al.typ != nil {
				nonNil = Or(nonNil, al.g)
			}
		}
		if prune(And(g, nonNil)) == False {
			return And(res, Not(eqVal(err, nilIface())))
		}
	}
	e.addOblig("unwind", "errors.Is: unwrap chain longer than the bound", e.posStr(pos, nil), g)
	return res
}

func (e *Engine) errorsAs(err, target IfaceV, g *Term, pos token.Pos) Value {
	if len(target.alts) != 1 || target.alts[0].typ == nil {
		abort("errors.As: target must be a single non-nil pointer")
	}
	pt, ok := target.alts[0].typ.(*types.Pointer)
	if !ok {
		abort("errors.As: target is not a pointer")
	}
	want := pt.Elem()
	wi, wantIface := want.Underlying().(*types.Interface)
	res := False
	cur := err
	for d := 0; d < maxUnwrap; d++ {
		for _, al := range cur.alts {
			if al.typ == nil {
				continue
			}
			var match bool
			if wantIface {
				match = types.Implements(al.typ, wi)
			} else {
				match = types.Identical(al.typ, want)
			}
			if !match {
				continue
			}
			hit := And(al.g, Not(res))
			if prune(And(g, hit)) == False {
				continue
			}
			var v Value = al.val
			if wantIface {
				v = IfaceV{alts: []IfaceAlt{{g: True, typ: al.typ, val: al.val}}}
			}
			e.ptrStore(target.alts[0].val, v, And(g, hit), pos)
			res = Or(res, hit)
		}
		cur = e.unwrapOnce(cur, g, pos)
		nonNil := False
		for _, al := range cur.alts {
			if al.typ != nil {
				nonNil = Or(nonNil, al.g)
			}
		}
		if prune(And(g, nonNil, Not(res))) == False {
			return res
		}
	}
	e.addOblig("unwind", "errors.As: unwrap chain longer than the bound", e.posStr(pos, nil), g)
	return res
}

// WaitGroup: counter kept in a side table keyed by the object identity.
var wgCount = map[string]*Term{}

func ptrKey(al PtrAlt) string {
	s := fmt.Sprint(al.obj.id)
	for _, p := range al.path {
		if p.idx != nil {
			s += fmt.Sprintf("[%d]", p.idx.id)
		} else {
			s += fmt.Sprintf(".%d", p.field)
		}
	}
	return s
}

func (e *Engine) waitGroup(op string, args []Value, g *Term, pos token.Pos) (Value, *Term, bool) {
	p := args[0].(PtrV)
	out := False
	for _, al := range p.alts {
		ag := prune(And(g, al.g))
		if ag == False || al.obj == nil {
			continue
		}
		k := ptrKey(al)
		c, ok := wgCount[k]
		if !ok {
			c = BV(IntW, 0)
		}
		switch op {
		case "Add":
			wgCount[k] = Ite(ag, BinBV("bvadd", c, args[1].(*Term)), c)
			out = Or(out, ag)
		case "Done":
			wgCount[k] = Ite(ag, BinBV("bvsub", c, BV(IntW, 1)), c)
			e.addOblig("panic", "sync: negative WaitGroup counter", e.posStr(pos, nil), And(ag, Cmp("bvslt", wgCount[k], BV(IntW, 0))))
			out = Or(out, ag)
		case "Wait":
			// other "threads" may finish the outstanding work while this one waits (block hook)
			for attempt := 0; attempt < e.hookLimit; attempt++ {
				cur, ok := wgCount[k]
				if !ok {
					break
				}
				ng := prune(And(ag, Not(Eq(cur, BV(IntW, 0)))))
				if ng == False || !e.runBlockHook(ng, pos) {
					break
				}
			}
			if cur, ok := wgCount[k]; ok {
				c = cur
			}
			nz := Not(Eq(c, BV(IntW, 0)))
			e.addOblig("blocked", "WaitGroup.Wait blocks forever (counter not zero)", e.posStr(pos, nil), And(ag, nz))
			out = Or(out, And(ag, Not(nz)))
		}
	}
	return nil, prune(out), true
}


// ---------- bytes.Buffer (modelled on its fields: buf []byte, off int) ----------

func (e *Engine) bytesBuffer(fn *ssa.Function, key string, args []Value, g *Term, pos token.Pos) (Value, *Term, bool) {
	fr := &frame{e: e}
	byteT := types.Typ[types.Byte]
	newBuf := func(buf SliceV) Value {
		bt := e.prog.ImportedPackage("bytes").Type("Buffer").Type().Underlying().(*types.Struct)
		sv := zero(bt).(StructV)
		sv.f[0] = buf
		return PtrV{alts: []PtrAlt{{g: True, obj: newObject(sv)}}}
	}
	getBuf := func() (SliceV, *Term) {
		st := fr.load(args[0].(PtrV), g, pos).(StructV)
		return st.f[0].(SliceV), st.f[1].(*Term)
	}
	setBuf := func(buf SliceV, off *Term) {
		p := args[0].(PtrV)
		fr.store(extendPath(p, PathElem{field: 0}), buf, g, pos)
		if off != nil {
			fr.store(extendPath(p, PathElem{field: 1}), off, g, pos)
		}
	}
	tail := func(buf SliceV, off *Term) SliceV {
		var r SliceV
		for _, al := range buf.alts {
			if al.obj == nil {
				r.alts = append(r.alts, al)
				continue
			}
			r.alts = append(r.alts, SliceAlt{g: al.g, obj: al.obj, off: BinBV("bvadd", al.off, off), ln: BinBV("bvsub", al.ln, off), cap: BinBV("bvsub", al.cap, off)})
		}
		return r
	}
	switch key {
	case "bytes.NewBuffer":
		return newBuf(args[0].(SliceV)), g, true
	case "bytes.NewBufferString":
		return newBuf(fr.stringToBytes(args[0].(StringV))), g, true
	case "(*bytes.Buffer).Write", "(*bytes.Buffer).WriteString":
		buf, _ := getBuf()
		nb := fr.appendAny(buf, byteT, args[1], g, pos).(SliceV)
		setBuf(nb, nil)
		var n *Term
		if s, ok := args[1].(SliceV); ok {
			n = sliceLen(s)
		} else {
			n = args[1].(StringV).n
		}
		return TupleV{n, nilIface()}, g, true
	case "(*bytes.Buffer).WriteByte":
		buf, _ := getBuf()
		c := args[1].(*Term)
		nb := fr.appendCore(buf, byteT, BV(IntW, 1), 1, func(int) Value { return c }, g, pos).(SliceV)
		setBuf(nb, nil)
		return nilIface(), g, true
	case "(*bytes.Buffer).String":
		buf, off := getBuf()
		return fr.bytesToString(tail(buf, off), g, pos), g, true
	case "(*bytes.Buffer).Bytes":
		buf, off := getBuf()
		return tail(buf, off), g, true
	case "(*bytes.Buffer).Len":
		buf, off := getBuf()
		return BinBV("bvsub", sliceLen(buf), off), g, true
	case "(*bytes.Buffer).Reset":
		buf, _ := getBuf()
		var r SliceV
		for _, al := range buf.alts {
			al.ln = BV(IntW, 0)
			r.alts = append(r.alts, al)
		}
		setBuf(r, BV(IntW, 0))
		return nil, g, true
	case "(*bytes.Buffer).Read":
		buf, off := getBuf()
		src := tail(buf, off)
		avail := sliceLen(src)
		dst := args[1].(SliceV)
		n := fr.doCopy([]Value{dst, src}, g, pos).(*Term)
		setBuf(buf, BinBV("bvadd", off, n))
		empty := Eq(avail, BV(IntW, 0))
		dstEmpty := Eq(sliceLen(dst), BV(IntW, 0))
		var eof Value = e.globalVal("io", "EOF")
		return TupleV{n, iteVal(And(empty, Not(dstEmpty)), eof, nilIface())}, g, true
	}
	return nil, nil, false
}

func (e *Engine) globalVal(pkg, name string) Value {
	p := e.prog.ImportedPackage(pkg)
	if p == nil {
		abort("package %s not loaded", pkg)
	}
	gl, ok := p.Members[name].(*ssa.Global)
	if !ok {
		abort("global %s.%s not found", pkg, name)
	}
	return e.globalObj(gl).val
}


// ---------- strings.Builder (modelled on its buf field) ----------

func (e *Engine) stringsBuilder(fn *ssa.Function, key string, args []Value, g *Term, pos token.Pos) (Value, *Term, bool) {
	if !strings.HasPrefix(key, "(*strings.Builder).") {
		return nil, nil, false
	}
	fr := &frame{e: e}
	byteT := types.Typ[types.Byte]
	p := args[0].(PtrV)
	bufPtr := extendPath(p, PathElem{field: 1})
	getBuf := func() SliceV { return fr.load(bufPtr, g, pos).(SliceV) }
	switch fn.Name() {
	case "Grow", "copyCheck":
		return nil, g, true
	case "WriteByte":
		c := args[1].(*Term)
		nb := fr.appendCore(getBuf(), byteT, BV(IntW, 1), 1, func(int) Value { return c }, g, pos)
		fr.store(bufPtr, nb, g, pos)
		return nilIface(), g, true
	case "WriteString", "Write":
		nb := fr.appendAny(getBuf(), byteT, args[1], g, pos)
		fr.store(bufPtr, nb, g, pos)
		var n *Term
		if s, ok := args[1].(SliceV); ok {
			n = sliceLen(s)
		} else {
			n = args[1].(StringV).n
		}
		return TupleV{n, nilIface()}, g, true
	case "WriteRune":
		r := args[1].(*Term)
		e.addOblig("limit", "strings.Builder.WriteRune with rune >= 0x80 not modelled", e.posStr(pos, nil), And(g, Not(Cmp("bvult", r, BV(32, 0x80)))))
		c := Extract(r, 7, 0)
		nb := fr.appendCore(getBuf(), byteT, BV(IntW, 1), 1, func(int) Value { return c }, g, pos)
		fr.store(bufPtr, nb, g, pos)
		return TupleV{BV(IntW, 1), nilIface()}, g, true
	case "String":
		return fr.bytesToString(getBuf(), g, pos), g, true
	case "Len":
		return sliceLen(getBuf()), g, true
	case "Reset":
		fr.store(bufPtr, nilSlice(), g, pos)
		return nil, g, true
	}
	return nil, nil, false
}
