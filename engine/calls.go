package main

import (
	"fmt"
	"os"
	"path/filepath"
	"go/token"
	"go/types"
	"strings"
	"time"

	"golang.org/x/tools/go/ssa"
)

func (fr *frame) call(x *ssa.Call, cc *ssa.CallCommon, g *Term, pos token.Pos) *Term {
	var args []Value
	for _, a := range cc.Args {
		args = append(args, fr.get(a))
	}
	fv := fr.get(cc.Value)
	res, ng := fr.callValue(cc, fv, args, g, pos)
	if ng == False {
		return False
	}
	if x != nil {
		if tup, ok := x.Type().(*types.Tuple); !ok || tup.Len() > 0 {
			if res == nil {
				res = zero(x.Type())
			}
			fr.set(x, g, res)
		}
	}
	return ng
}

// callValue performs a call given already evaluated callee value and args. Returns result and continuing guard.
func (fr *frame) callValue(cc *ssa.CallCommon, fv Value, args []Value, g *Term, pos token.Pos) (Value, *Term) {
	e := fr.e
	if bi, ok := cc.Value.(*ssa.Builtin); ok && !cc.IsInvoke() {
		return fr.builtin(bi, cc, args, g, pos)
	}
	if cc.IsInvoke() {
		iv, ok := fv.(IfaceV)
		if !ok {
			abort("invoke on %T", fv)
		}
		var res Value
		out := False
		for _, al := range iv.alts {
			ag := prune(And(g, al.g))
			if ag == False {
				continue
			}
			if al.typ == nil {
				fr.panicAt(ag, "nil pointer dereference (method call on nil interface)", pos)
				continue
			}
			ms := e.prog.MethodSets.MethodSet(al.typ)
			sel := ms.Lookup(cc.Method.Pkg(), cc.Method.Name())
			if sel == nil {
				abort("method %s not found on %s", cc.Method.Name(), al.typ)
			}
			fn := e.prog.MethodValue(sel)
			if fn == nil {
				abort("no method value %s on %s", cc.Method.Name(), al.typ)
			}
			r, rg := e.callFn(fn, append([]Value{al.val}, args...), nil, ag, pos)
			if rg == False {
				continue
			}
			if res == nil {
				res = r
			} else if r != nil {
				res = iteVal(rg, r, res)
			}
			out = Or(out, rg)
		}
		return res, prune(out)
	}
	f, ok := fv.(FuncV)
	if !ok {
		abort("call of %T", fv)
	}
	var res Value
	out := False
	for _, al := range f.alts {
		ag := prune(And(g, al.g))
		if ag == False {
			continue
		}
		if al.fn == nil {
			fr.panicAt(ag, "call of nil function", pos)
			continue
		}
		r, rg := e.callFn(al.fn, args, al.free, ag, pos)
		if rg == False {
			continue
		}
		if res == nil {
			res = r
		} else if r != nil {
			res = iteVal(rg, r, res)
		}
		out = Or(out, rg)
	}
	return res, prune(out)
}

func fnKey(fn *ssa.Function) string {
	s := fn.String()
	return s
}

func resultZero(fn *ssa.Function) Value {
	rs := fn.Signature.Results()
	switch rs.Len() {
	case 0:
		return nil
	case 1:
		return zero(rs.At(0).Type())
	}
	return zero(rs)
}

func (e *Engine) callFn(fn *ssa.Function, args []Value, free []Value, g *Term, pos token.Pos) (Value, *Term) {
	e.calls++
	key := fnKey(fn)
	// harness intrinsics
	if fn.Pkg == e.hpkg && fn.Pkg != nil && strings.HasPrefix(fn.Name(), "v") {
		if r, ng, ok := e.intrinsic(fn, args, g, pos); ok {
			return r, ng
		}
	}
	if m, ok := e.replace[key]; ok && m != fn {
		fn = m
		key = fnKey(fn)
	} else if fn.Origin() != nil {
		if m, ok := e.replace[fnKey(fn.Origin())]; ok {
			fn = m
			key = fnKey(fn)
		}
	}
	if e.noops[key] {
		return resultZero(fn), g
	}
	if r, ng, ok := e.libIntrinsic(fn, key, args, g, pos); ok {
		return r, ng
	}
	if e.depth >= e.maxDepth {
		e.addOblig("unwind", "call depth exceeds "+fmt.Sprint(e.maxDepth), "in "+key, g)
		return nil, False
	}
	lim := e.maxRecur
	if k, ok := e.recurFor[fn.Name()]; ok {
		lim = k
	}
	if e.active[fn] >= lim {
		e.addOblig("unwind", fmt.Sprintf("recursion of %s exceeds %d", fn.Name(), lim), "in "+key, g)
		return nil, False
	}
	if fn.Blocks == nil {
		if fn.Pkg != nil {
			fn.Pkg.Build()
		} else if o := fn.Origin(); o != nil && o.Pkg != nil {
			o.Pkg.Build()
		}
		if fn.Blocks == nil {
			if e.tolerant > 0 {
				return havocZero(fn), g
			}
			abort("no body for %s (called at %s): needs a model (//verif:replace) or a no-op entry", key, e.posStr(pos, nil))
		}
	}
	e.funcsSeen[key] = true
	if e.traceCalls {
		fmt.Printf("%s-> %s  [terms=%d blocks=%d]\n", strings.Repeat(" ", e.depth), key, nTerms, e.blocksRun)
	}
	e.depth++
	e.active[fn]++
	e.stack = append(e.stack, fn.Name())
	defer func() { e.depth--; e.active[fn]--; e.stack = e.stack[:len(e.stack)-1] }()
	fr := &frame{e: e, fn: fn, env: map[ssa.Value]Value{}, in: map[*ssa.BasicBlock][]edge{}, lf: e.forest(fn), free: free}
	if len(args) != len(fn.Params) {
		abort("arity mismatch calling %s: %d args for %d params", key, len(args), len(fn.Params))
	}
	for i, p := range fn.Params {
		fr.env[p] = args[i]
	}
	fr.in[fn.Blocks[0]] = []edge{{nil, g}}
	fr.execRegion(nil)
	var acc Value
	var gs []*Term
	for _, r := range fr.rets {
		gs = append(gs, r.g)
		if r.v == nil {
			continue
		}
		if acc == nil {
			acc = r.v
		} else {
			acc = iteVal(r.g, r.v, acc)
		}
	}
	return acc, prune(Or(gs...))
}

func havocZero(fn *ssa.Function) Value { return resultZero(fn) }

// ---------- builtins ----------

func (fr *frame) builtin(bi *ssa.Builtin, cc *ssa.CallCommon, args []Value, g *Term, pos token.Pos) (Value, *Term) {
	switch bi.Name() {
	case "len":
		switch a := args[0].(type) {
		case SliceV:
			return sliceLen(a), g
		case StringV:
			return a.n, g
		case MapV:
			return fr.mapLen(a, g), g
		case ArrayV:
			return BV(IntW, uint64(len(a.e))), g
		case PtrV: // *array
			at := cc.Args[0].Type().Underlying().(*types.Pointer).Elem().Underlying().(*types.Array)
			return BV(IntW, uint64(at.Len())), g
		case ChanV:
			return BV(IntW, 0), g
		}
		abort("len of %T", args[0])
	case "cap":
		switch a := args[0].(type) {
		case SliceV:
			return sliceCap(a), g
		case ArrayV:
			return BV(IntW, uint64(len(a.e))), g
		}
		abort("cap of %T", args[0])
	case "append":
		return fr.doAppend(cc, args, g, pos), g
	case "copy":
		return fr.doCopy(args, g, pos), g
	case "delete":
		mv := args[0].(MapV)
		for _, al := range mv.alts {
			ag := And(g, al.g)
			if al.m == nil || !feasible(ag) {
				continue
			}
			al.m.slots = append(al.m.slots, MapSlot{key: args[1], live: ag, del: true})
		}
		return nil, g
	case "close":
		cv := args[0].(ChanV)
		for _, al := range cv.alts {
			ag := And(g, al.g)
			if !feasible(ag) {
				continue
			}
			if al.ch == nil {
				fr.panicAt(ag, "close of nil channel", pos)
				continue
			}
			fr.panicAt(And(ag, al.ch.closed), "close of closed channel", pos)
			al.ch.closed = Or(al.ch.closed, ag)
		}
		return nil, g
	case "StringData":
		return args[0], g // pseudo pointer: the string value itself
	case "String":
		if sv, ok := args[0].(StringV); ok {
			return strSub(sv, BV(IntW, 0), args[1].(*Term)), g
		}
		if pv, ok := args[0].(PtrV); ok {
			var sl SliceV
			for _, al := range pv.alts {
				if al.obj == nil {
					sl.alts = append(sl.alts, SliceAlt{g: al.g, off: BV(IntW, 0), ln: BV(IntW, 0), cap: BV(IntW, 0)})
					continue
				}
				if len(al.path) != 1 || al.path[0].idx == nil {
					abort("unsafe.String of a pointer that is not a byte-array element")
				}
				sl.alts = append(sl.alts, SliceAlt{g: al.g, obj: al.obj, off: al.path[0].idx, ln: args[1].(*Term), cap: args[1].(*Term)})
			}
			return fr.bytesToString(sl, g, pos), g
		}
	case "print", "println":
		return nil, g
	case "recover":
		return nilIface(), g
	case "min", "max":
		acc := args[0].(*Term)
		sg := isSigned(cc.Args[0].Type())
		for _, a := range args[1:] {
			at := a.(*Term)
			var less *Term
			if sg {
				less = Cmp("bvslt", at, acc)
			} else {
				less = Cmp("bvult", at, acc)
			}
			if bi.Name() == "max" {
				less = Not(Or(less, Eq(at, acc)))
			}
			acc = Ite(less, at, acc)
		}
		return acc, g
	case "clear":
		if mv, ok := args[0].(MapV); ok {
			for _, al := range mv.alts {
				ag := And(g, al.g)
				if al.m == nil || !feasible(ag) {
					continue
				}
				n := len(al.m.slots)
				for i := 0; i < n; i++ {
					if !al.m.slots[i].del {
						al.m.slots = append(al.m.slots, MapSlot{key: al.m.slots[i].key, live: ag, del: true})
					}
				}
			}
			return nil, g
		}
	}
	abort("builtin %s unsupported at %s", bi.Name(), fr.e.posStr(pos, fr.fn))
	return nil, g
}

func (fr *frame) doAppend(cc *ssa.CallCommon, args []Value, g *Term, pos token.Pos) Value {
	base := args[0].(SliceV)
	st := cc.Args[0].Type().Underlying().(*types.Slice)
	return fr.appendAny(base, st.Elem(), args[1], g, pos)
}

// appendAny appends a slice or string value to base.
func (fr *frame) appendAny(base SliceV, et types.Type, add Value, g *Term, pos token.Pos) Value {
	// length-abstracted slices: only lengths are tracked
	abs := false
	for _, al := range base.alts {
		if isAbstract(al.obj) {
			abs = true
		}
	}
	if as, ok := add.(SliceV); ok {
		for _, al := range as.alts {
			if isAbstract(al.obj) {
				abs = true
			}
		}
	}
	if abs {
		var n *Term
		switch a := add.(type) {
		case SliceV:
			n = sliceLen(a)
		case StringV:
			n = a.n
		}
		var res Value
		for _, al := range base.alts {
			newLen := BinBV("bvadd", al.ln, n)
			fits := Cmp("bvule", newLen, al.cap)
			if al.obj == nil {
				fits = False
			}
			inPlace := SliceV{alts: []SliceAlt{{g: True, obj: al.obj, off: al.off, ln: newLen, cap: al.cap}}}
			grown := SliceV{alts: []SliceAlt{{g: True, obj: newObject(AbstractArr{}), off: BV(IntW, 0), ln: newLen, cap: newLen}}}
			var r Value = iteVal(fits, inPlace, grown)
			if res == nil {
				res = r
			} else {
				res = iteVal(al.g, r, res)
			}
		}
		return res
	}
	var addN *Term
	var elems func(j int) Value
	maxAdd := 0
	switch a := add.(type) {
	case SliceV:
		addN = sliceLen(a)
		maxAdd = fr.lenBound(a)
		vals := make([]Value, maxAdd)
		for j := range vals {
			vals[j] = fr.sliceElem(a, BV(IntW, uint64(j)), g, pos)
		}
		elems = func(j int) Value { return vals[j] }
	case StringV:
		addN = a.n
		maxAdd = len(a.b)
		if m, ok := maxConst(a.n); ok && m < uint64(maxAdd) {
			maxAdd = int(m)
		}
		elems = func(j int) Value { return a.b[j] }
	default:
		abort("append of %T", add)
	}
	return fr.appendCore(base, et, addN, maxAdd, elems, g, pos)
}

func (fr *frame) appendCore(base SliceV, et types.Type, addN *Term, maxAdd int, elems func(j int) Value, g *Term, pos token.Pos) Value {
	if maxAdd == 0 {
		return base
	}
	var out SliceV
	var grows []growAlt
	if os.Getenv("VERIF_DEBUG_APPENDN") != "" {
		fmt.Printf("APPENDN %s alts=%d maxAdd=%d terms=%d\n", fr.e.posStr(pos, nil), len(base.alts), maxAdd, len(termTab))
	}
	for _, al := range base.alts {
		ag := prune(And(g, al.g))
		if ag == False {
			continue
		}
		newLen := BinBV("bvadd", al.ln, addN)
		fits := Cmp("bvule", newLen, al.cap)
		if al.obj == nil {
			fits = Eq(addN, BV(IntW, 0))
		}
		var inPlace Value
		if fr.e.shadowLog != nil && os.Getenv("VERIF_DEBUG_APPEND") != "" && strings.Contains(fr.e.posStr(pos, nil), os.Getenv("VERIF_DEBUG_APPEND")) {
			n := -1
			if al.obj != nil {
				n = arrLen(al.obj)
			}
			id := 0
			if al.obj != nil {
				id = al.obj.id
			}
			fmt.Printf("APPEND at %s: alt obj=%d arrlen=%d g=%d ag=%d off=%d ln=%d cap=%d addN=%d fits=%d\n", fr.e.posStr(pos, nil), id, n,
				fr.e.shadowEval(al.g), fr.e.shadowEval(ag), fr.e.shadowEval(al.off), fr.e.shadowEval(al.ln), fr.e.shadowEval(al.cap), fr.e.shadowEval(addN), fr.e.shadowEval(fits))
		}
		if al.obj != nil && prune(And(ag, fits)) != False {
			// write in place
			for j := 0; j < maxAdd; j++ {
				jt := BV(IntW, uint64(j))
				wg := And(ag, fits, Cmp("bvult", jt, addN))
				if prune(wg) == False {
					continue
				}
				if v := elems(j); v != nil {
					fr.wpg = wg
					al.obj.val = fr.writePath(al.obj.val, []PathElem{{idx: BinBV("bvadd", al.off, BinBV("bvadd", al.ln, jt))}}, v, relaxGuard(al.obj, wg), pos)
					fr.wpg = nil
				}
			}
			inPlace = SliceV{alts: []SliceAlt{{g: True, obj: al.obj, off: al.off, ln: newLen, cap: al.cap}}}
		} else if al.obj == nil {
			na := al
			na.g = True
			inPlace = SliceV{alts: []SliceAlt{na}}
		}
		if prune(And(ag, Not(fits))) != False && fr.growFeasible(al, And(ag, Not(fits))) {
			// every alternative that has to grow shares one new backing array (Go leaves the growth
			// policy to the implementation; one merged array keeps the number of alternatives linear
			// in the number of appends instead of doubling it)
			grows = append(grows, growAlt{al: al, gg: And(al.g, Not(fits)), wg: And(ag, Not(fits))})
		}
		if inPlace != nil {
			ip := inPlace.(SliceV)
			for _, a := range ip.alts {
				a.g = And(al.g, fits)
				if a.g != False {
					out.alts = append(out.alts, a)
				}
			}
		}
	}
	if len(grows) > 0 {
		nc := 4
		abstract := false
		for i := range grows {
			ga := &grows[i]
			if ga.al.obj != nil {
				ga.oldMax = fr.lenBoundAlt(ga.al)
				if isAbstract(ga.al.obj) {
					abstract = true
				}
			}
			if ga.oldMax+maxAdd > nc {
				nc = ga.oldMax + maxAdd
			}
			if 2*ga.oldMax > nc {
				nc = 2 * ga.oldMax
			}
		}
		obj := fr.newArray(et, nc)
		arr := obj.val.(ArrayV)
		var oldLn, anyG, anyW *Term
		for i, ga := range grows {
			for j := 0; j < ga.oldMax && !abstract; j++ {
				v := fr.readPath(ga.al.obj.val, []PathElem{{idx: BinBV("bvadd", ga.al.off, BV(IntW, uint64(j)))}}, False, pos)
				if v == nil {
					continue
				}
				if len(grows) == 1 {
					arr.e[j] = v
				} else {
					arr.e[j] = iteVal(ga.gg, v, arr.e[j])
				}
			}
			if i == 0 {
				oldLn, anyG, anyW = ga.al.ln, ga.gg, ga.wg
			} else {
				oldLn = Ite(ga.gg, ga.al.ln, oldLn)
				anyG = Or(anyG, ga.gg)
				anyW = Or(anyW, ga.wg)
			}
		}
		obj.val = arr
		for j := 0; j < maxAdd; j++ {
			jt := BV(IntW, uint64(j))
			wg := And(anyW, Cmp("bvult", jt, addN))
			if prune(wg) == False {
				continue
			}
			if v := elems(j); v != nil {
				obj.val = fr.writePath(obj.val, []PathElem{{idx: BinBV("bvadd", oldLn, jt)}}, v, wg, pos)
			}
		}
		out.alts = append(out.alts, SliceAlt{g: anyG, obj: obj, off: BV(IntW, 0), ln: BinBV("bvadd", oldLn, addN), cap: BV(IntW, uint64(nc))})
	}
	if len(out.alts) == 0 {
		return base
	}
	return out
}

// growFeasible: for a slice whose capacity is symbolic (make([]T, 0, n) filled by a loop) the solver is asked
// whether the append can outgrow it at all; a definite "no" saves the alternative with a fresh backing array
// (dead-work pruning only, as at loop headers). Budget: 30 s of solver time per execution.
func (fr *frame) growFeasible(al SliceAlt, g *Term) bool {
	e := fr.e
	if al.obj == nil || al.cap.konst || e.growFeasSecs > 30 {
		return true
	}
	t0 := time.Now()
	before := e.feasSecs
	ok := e.feasibleSMT(g)
	e.growFeasSecs += time.Since(t0).Seconds()
	e.feasSecs = before // not charged to the loop-header budget
	return ok
}

type growAlt struct {
	al     SliceAlt
	gg, wg *Term
	oldMax int
}

func (fr *frame) lenBoundAlt(al SliceAlt) int {
	n := arrLen(al.obj)
	if m, ok := maxConst(al.ln); ok && m < uint64(n) {
		return int(m)
	}
	if o, ok := maxConst(al.off); ok && al.off.konst {
		if n-int(o) >= 0 {
			return n - int(o)
		}
	}
	return n
}

func (fr *frame) lenBound(s SliceV) int {
	m := 0
	for _, al := range s.alts {
		if al.obj == nil {
			continue
		}
		if b := fr.lenBoundAlt(al); b > m {
			m = b
		}
	}
	return m
}

func (fr *frame) doCopy(args []Value, g *Term, pos token.Pos) Value {
	dst := args[0].(SliceV)
	var srcN *Term
	var elem func(j int) Value
	maxSrc := 0
	switch s := args[1].(type) {
	case SliceV:
		srcN = sliceLen(s)
		maxSrc = fr.lenBound(s)
		// read all source elements first (copy handles overlap like memmove)
		vals := make([]Value, maxSrc)
		for j := range vals {
			vals[j] = fr.sliceElem(s, BV(IntW, uint64(j)), g, pos)
		}
		elem = func(j int) Value { return vals[j] }
	case StringV:
		srcN = s.n
		maxSrc = len(s.b)
		elem = func(j int) Value { return s.b[j] }
	}
	dstN := sliceLen(dst)
	n := Ite(Cmp("bvult", srcN, dstN), srcN, dstN)
	maxDst := fr.lenBound(dst)
	m := maxSrc
	if maxDst < m {
		m = maxDst
	}
	for j := 0; j < m; j++ {
		wg := And(g, Cmp("bvult", BV(IntW, uint64(j)), n))
		if prune(wg) == False {
			continue
		}
		if v := elem(j); v != nil {
			fr.sliceStore(dst, BV(IntW, uint64(j)), v, wg, pos)
		}
	}
	return n
}

// ---------- goroutines, channels (sequentialised) ----------

func (fr *frame) goStmt(x *ssa.Go, g *Term) {
	var args []Value
	for _, a := range x.Call.Args {
		args = append(args, fr.get(a))
	}
	fv := fr.get(x.Call.Value)
	if fr.e.goQueue {
		if f, ok := fv.(FuncV); ok {
			fr.e.spawned = append(fr.e.spawned, &spawnRec{g: g, fv: f, args: args})
			return
		}
	}
	// run to completion (or until it blocks) at the spawn point
	fr.callValue(&x.Call, fv, args, g, x.Pos())
}

func (fr *frame) chanRecv(cv ChanV, et types.Type, g *Term, pos token.Pos) (Value, *Term, *Term) {
	var val Value = zero(et)
	okc := False
	out := False
	for _, al := range cv.alts {
		ag := prune(And(g, al.g))
		if ag == False {
			continue
		}
		if al.ch == nil {
			fr.e.addOblig("blocked", "receive from nil channel blocks forever", fr.e.posStr(pos, fr.fn), ag)
			continue
		}
		ch := al.ch
		// first present buffered element
		var v Value = zero(et)
		got := False
		none := True
		for i := range ch.buf {
			first := And(none, ch.present[i])
			if first != False {
				v = iteVal(first, ch.buf[i], v)
				got = Or(got, first)
				ch.present[i] = And(ch.present[i], Not(And(ag, first)))
			}
			none = And(none, Not(ch.present[i]), Not(first))
		}
		ready := Or(got, ch.closed)
		if ch.timer {
			ready = ch.ready
			got = ch.ready
		}
		fr.e.addOblig("blocked", "receive blocks forever (channel empty and not closed)", fr.e.posStr(pos, fr.fn), And(ag, Not(ready)))
		rg := And(ag, ready)
		val = iteVal(al.g, v, val)
		okc = Ite(al.g, got, okc)
		out = Or(out, rg)
	}
	return val, okc, prune(out)
}

func (fr *frame) chanSend(cv ChanV, v Value, g *Term, pos token.Pos) *Term {
	for _, al := range cv.alts {
		ag := prune(And(g, al.g))
		if ag == False {
			continue
		}
		if al.ch == nil {
			fr.e.addOblig("blocked", "send on nil channel blocks forever", fr.e.posStr(pos, fr.fn), ag)
			continue
		}
		fr.panicAt(And(ag, al.ch.closed), "send on closed channel", pos)
		al.ch.buf = append(al.ch.buf, v)
		al.ch.present = append(al.ch.present, ag)
	}
	return g
}

// blockHook: when a blocking select / receive has no ready case, other "threads" get to run: the harness function
// vOnBlock (if the harness package defines one) is called under that guard, a bounded number of times, and the
// readiness is evaluated again. This is how "the event happens while the waiter is already waiting" is explored.
func (e *Engine) runBlockHook(g *Term, pos token.Pos) bool {
	if e.hookDepth >= e.hookLimit {
		return false
	}
	fn := e.hpkg.Func("vOnBlock")
	if fn == nil {
		return false
	}
	if prune(g) == False {
		return false
	}
	e.hookDepth++
	e.callFn(fn, nil, nil, g, pos)
	e.hookDepth--
	return true
}

func (fr *frame) execSelect(x *ssa.Select, g *Term) *Term {
	e := fr.e
	if x.Blocking {
		for attempt := 0; attempt < e.hookLimit; attempt++ {
			anyReady := fr.selectAnyReady(x, g)
			ng := prune(And(g, Not(anyReady)))
			if ng == False || !e.runBlockHook(ng, x.Pos()) {
				break
			}
		}
	}
	return fr.execSelect1(x, g)
}

// selectAnyReady: is some case of the select ready (same readiness rules as execSelect1)?
func (fr *frame) selectAnyReady(x *ssa.Select, g *Term) *Term {
	var others []*Term
	hasTimer := false
	for _, st := range x.States {
		cv := fr.get(st.Chan).(ChanV)
		for _, al := range cv.alts {
			if al.ch == nil {
				continue
			}
			if st.Dir != types.RecvOnly {
				others = append(others, al.g)
				continue
			}
			if al.ch.timer {
				hasTimer = true
				continue
			}
			r := al.ch.closed
			for k := range al.ch.buf {
				r = Or(r, al.ch.present[k])
			}
			others = append(others, And(al.g, r))
		}
	}
	if hasTimer {
		return True
	}
	return Or(others...)
}

func (fr *frame) execSelect1(x *ssa.Select, g *Term) *Term {
	e := fr.e
	e.selectN++
	n := len(x.States)
	ready := make([]*Term, n)
	vals := make([]Value, n)
	oks := make([]*Term, n)
	isTimer := make([]bool, n)
	type pend struct {
		ch    *ChanObj
		i     int
		first *Term
	}
	var consume [][]pend
	for i, st := range x.States {
		cv := fr.get(st.Chan).(ChanV)
		ready[i] = False
		var cons []pend
		if st.Dir == types.RecvOnly {
			et := st.Chan.Type().Underlying().(*types.Chan).Elem()
			var val Value = zero(et)
			okc := False
			for _, al := range cv.alts {
				if al.ch == nil || prune(And(g, al.g)) == False {
					continue
				}
				ch := al.ch
				var v Value = zero(et)
				got := False
				none := True
				for k := range ch.buf {
					first := And(none, ch.present[k])
					if first != False {
						v = iteVal(first, ch.buf[k], v)
						got = Or(got, first)
						cons = append(cons, pend{ch, k, And(al.g, first)})
					}
					none = And(none, Not(ch.present[k]))
				}
				r := Or(got, ch.closed)
				if ch.timer {
					isTimer[i] = true
					r, got = False, True // decided below: a timer fires only when no other case is ready
				}
				ready[i] = Or(ready[i], And(al.g, r))
				val = iteVal(al.g, v, val)
				okc = Ite(al.g, got, okc)
			}
			vals[i], oks[i] = val, okc
		} else {
			// a send is always "ready" in the sequential model (buffered semantics)
			for _, al := range cv.alts {
				if al.ch != nil {
					ready[i] = Or(ready[i], al.g)
				}
			}
		}
		consume = append(consume, cons)
	}
	// timers are the slowest events: a timer case is ready exactly when no other case is
	// (the simultaneous-expiry race is outside the model; it cannot be replayed natively)
	{
		var others []*Term
		for i := range ready {
			if !isTimer[i] {
				others = append(others, ready[i])
			}
		}
		noOther := Not(Or(others...))
		for i := range ready {
			if isTimer[i] {
				ready[i] = noOther
			}
		}
	}
	// nondeterministic choice among ready cases
	chosen := make([]*Term, n)
	any := Or(ready...)
	pick := e.freshChoice(fmt.Sprintf("select%d", e.selectN), n)
	for i := range chosen {
		chosen[i] = And(ready[i], Eq(pick, BV(IntW, uint64(i))))
	}
	anyChosen := Or(chosen...)
	// the scheduler picks some ready case whenever one exists
	e.assumes = append(e.assumes, Imp(And(g, any), anyChosen))
	idx := BV(IntW, uint64(0))
	idx = BV(IntW, ^uint64(0)) // -1: default
	for i := n - 1; i >= 0; i-- {
		idx = Ite(chosen[i], BV(IntW, uint64(i)), idx)
	}
	ng := g
	if x.Blocking {
		e.addOblig("blocked", "select blocks forever (no case ready)", e.posStr(x.Pos(), fr.fn), And(g, Not(any)))
		ng = prune(And(g, any))
	}
	// effects
	recvOk := False
	for i, st := range x.States {
		cg := And(ng, chosen[i])
		if st.Dir == types.RecvOnly {
			for _, p := range consume[i] {
				p.ch.present[p.i] = And(p.ch.present[p.i], Not(And(cg, p.first)))
			}
			recvOk = Or(recvOk, And(chosen[i], oks[i]))
		} else if prune(cg) != False {
			fr.chanSend(fr.get(st.Chan).(ChanV), fr.get(st.Send), cg, x.Pos())
		}
	}
	res := TupleV{idx, recvOk}
	for i, st := range x.States {
		if st.Dir == types.RecvOnly {
			res = append(res, vals[i])
		}
	}
	fr.set(x, g, res)
	return ng
}

func (e *Engine) freshChoice(name string, n int) *Term {
	return e.nondetRange("$"+name, 0, int64(n-1), IntW)
}

// ---------- globals ----------

func (e *Engine) globalObj(gl *ssa.Global) *Object {
	if o, ok := e.globals[gl]; ok {
		return o
	}
	et := gl.Type().(*types.Pointer).Elem()
	o := newObject(zero(et))
	o.allocG = nil // a global exists on every path
	o.name = gl.String()
	e.globals[gl] = o
	// error sentinels: a unique opaque error value per global
	if types.Identical(et, types.Universe.Lookup("error").Type()) {
		o.val = e.sentinelError(gl.Name())
		return o
	}
	// other globals of the packages under test: run the package initialiser (tolerantly) once
	// (harness-declared globals start from their zero value)
	if gl.Pos().IsValid() && strings.HasPrefix(filepath.Base(e.fset.Position(gl.Pos()).Filename), "zz_verif") {
		if gl.Pkg != nil && !e.verifInitDone[gl.Pkg] {
			e.verifInitDone[gl.Pkg] = true
			e.onlyVerifInit = true
			e.runInitFn(gl.Pkg)
			e.onlyVerifInit = false
		}
		return o
	}
	if gl.Pkg != nil && e.wantInit(gl.Pkg) {
		e.runInit(gl.Pkg)
	}
	return o
}

func (e *Engine) sentinelError(name string) Value {
	// dynamic type *errors.errorString with a distinct object per sentinel
	var et types.Type
	if p := e.prog.ImportedPackage("errors"); p != nil {
		if tn := p.Type("errorString"); tn != nil {
			et = types.NewPointer(tn.Type())
		}
	}
	if et == nil {
		abort("errors.errorString not loaded")
	}
	obj := newObject(StructV{f: []Value{constStr(name)}})
	obj.name = name
	return IfaceV{alts: []IfaceAlt{{g: True, typ: et, val: PtrV{alts: []PtrAlt{{g: True, obj: obj}}}}}}
}

func (e *Engine) wantInit(p *ssa.Package) bool {
	if e.initDone[p] {
		return false
	}
	path := p.Pkg.Path()
	return strings.HasPrefix(path, "connectrpc.com/conformance") && !strings.Contains(path, "/internal/gen/")
}

func (e *Engine) runInit(p *ssa.Package) {
	e.initDone[p] = true
	e.runInitFn(p)
}

func (e *Engine) runInitFn(p *ssa.Package) {
	fn := p.Func("init")
	if fn == nil {
		return
	}
	p.Build()
	e.tolerant++
	saveOb, saveAs := len(e.obligs), len(e.assumes)
	defer func() {
		e.tolerant--
		e.obligs = e.obligs[:saveOb]
		e.assumes = e.assumes[:saveAs]
	}()
	func() {
		defer func() {
			if r := recover(); r != nil {
				if ae, ok := r.(abortErr); ok {
					_ = ae
					return
				}
				
			}
		}()
		e.callFn(fn, nil, nil, True, token.NoPos)
	}()
}
