package main

import (
	"fmt"
	"go/types"

	"golang.org/x/tools/go/ssa"
)

// ---------- values ----------

type Value interface{}

type StructV struct{ f []Value }
type ArrayV struct{ e []Value }

// AbstractArr is the backing store of a length-abstracted (large) byte slice: only offsets, lengths and capacities
// are tracked; element reads yield 0 and element writes are dropped (option AbstractBigAllocs, stated as a cut).
type AbstractArr struct{}

func arrLen(o *Object) int {
	if a, ok := o.val.(ArrayV); ok {
		return len(a.e)
	}
	return 0
}

func isAbstract(o *Object) bool {
	if o == nil {
		return false
	}
	_, ok := o.val.(AbstractArr)
	return ok
}
type PathElem struct {
	field int
	idx   *Term // non-nil => array index
}
type PtrAlt struct {
	g    *Term
	obj  *Object // nil => nil pointer
	path []PathElem
}
type PtrV struct{ alts []PtrAlt }
type SliceAlt struct {
	g            *Term
	obj          *Object // array object; nil => nil slice
	off, ln, cap *Term
}
type SliceV struct{ alts []SliceAlt }

// StringV: bytes b[0:n]; bytes at positions >= n are unspecified. len(b) is the concrete capacity bound.
type StringV struct {
	b []*Term
	n *Term
}
type MapAlt struct {
	g *Term
	m *MapObj // nil => nil map
}
type MapV struct{ alts []MapAlt }
type IfaceAlt struct {
	g   *Term
	typ types.Type // nil => nil interface
	val Value
}
type IfaceV struct{ alts []IfaceAlt }
type FuncAlt struct {
	g    *Term
	fn   *ssa.Function // nil => nil func
	free []Value
}
type FuncV struct{ alts []FuncAlt }
type ChanAlt struct {
	g  *Term
	ch *ChanObj
}
type ChanV struct{ alts []ChanAlt }
type TupleV []Value

// IterV is a range iterator (map or string); pos is concrete because loops are unrolled.
type IterV struct {
	it *iterState
}
type iterState struct {
	slots []iterSlot // map
	str   *StringV
	pos   int
	posT  *Term // UTF-8 mode: byte offset of the next rune (symbolic)
}
type iterSlot struct {
	visit *Term
	key   Value
	val   Value
}

type Object struct {
	id     int
	val    Value
	name   string
	allocG *Term // guard under which the object was allocated (it does not exist on other paths)
}

// curGuard is the guard of the instruction being executed (set by execBlock).
var curGuard *Term
type MapSlot struct {
	key  Value
	val  Value
	live *Term // guard under which this log entry happened
	del  bool
}
type MapObj struct {
	id    int
	slots []MapSlot
	kt    types.Type
	vt    types.Type
}
type ChanObj struct {
	id     int
	closed *Term
	buf    []Value // FIFO contents (concrete positions), each with presence guard
	present []*Term
	et     types.Type
	capN   int
	timer  bool  // produced by time.After stub: readiness is nondeterministic
	ready  *Term // for timer channels
}

var nObjects int

func newObject(v Value) *Object { nObjects++; return &Object{id: nObjects, val: v, allocG: curGuard} }

const IntW = 64

func basicWidth(b *types.Basic) int {
	switch b.Kind() {
	case types.Bool, types.UntypedBool:
		return 0
	case types.Int8, types.Uint8:
		return 8
	case types.Int16, types.Uint16:
		return 16
	case types.Int32, types.Uint32, types.UntypedRune, types.Float32:
		return 32
	default:
		return 64
	}
}

func widthOf(t types.Type) int {
	b, ok := t.Underlying().(*types.Basic)
	if !ok {
		panic("widthOf " + t.String())
	}
	return basicWidth(b)
}

func isSigned(t types.Type) bool {
	b, ok := t.Underlying().(*types.Basic)
	return ok && b.Info()&types.IsUnsigned == 0
}

func isString(t types.Type) bool {
	b, ok := t.Underlying().(*types.Basic)
	return ok && b.Info()&types.IsString != 0
}

func isFloat(t types.Type) bool {
	b, ok := t.Underlying().(*types.Basic)
	return ok && b.Info()&types.IsFloat != 0
}

func nilPtr() PtrV       { return PtrV{alts: []PtrAlt{{g: True}}} }
func nilSlice() SliceV   { return SliceV{alts: []SliceAlt{{g: True, off: BV(IntW, 0), ln: BV(IntW, 0), cap: BV(IntW, 0)}}} }
func nilIface() IfaceV   { return IfaceV{alts: []IfaceAlt{{g: True}}} }
func emptyStr() StringV  { return StringV{n: BV(IntW, 0)} }
func constStr(s string) StringV {
	r := StringV{n: BV(IntW, uint64(len(s)))}
	for i := 0; i < len(s); i++ {
		r.b = append(r.b, BV(8, uint64(s[i])))
	}
	return r
}

func zero(t types.Type) Value {
	switch u := t.Underlying().(type) {
	case *types.Basic:
		if u.Info()&types.IsString != 0 {
			return emptyStr()
		}
		if u.Kind() == types.UnsafePointer {
			return nilPtr()
		}
		w := basicWidth(u)
		if w == 0 {
			return False
		}
		return BV(w, 0)
	case *types.Struct:
		s := StructV{}
		for i := 0; i < u.NumFields(); i++ {
			s.f = append(s.f, zero(u.Field(i).Type()))
		}
		return s
	case *types.Array:
		a := ArrayV{}
		z := zero(u.Elem())
		for i := int64(0); i < u.Len(); i++ {
			a.e = append(a.e, z)
		}
		return a
	case *types.Pointer:
		return nilPtr()
	case *types.Slice:
		return nilSlice()
	case *types.Map:
		return MapV{alts: []MapAlt{{g: True}}}
	case *types.Interface:
		return nilIface()
	case *types.Signature:
		return FuncV{alts: []FuncAlt{{g: True}}}
	case *types.Chan:
		return ChanV{alts: []ChanAlt{{g: True}}}
	case *types.Tuple:
		tv := TupleV{}
		for i := 0; i < u.Len(); i++ {
			tv = append(tv, zero(u.At(i).Type()))
		}
		return tv
	}
	panic("zero: unsupported " + t.String())
}

func padStr(s StringV, n int) []*Term {
	if len(s.b) >= n {
		return s.b
	}
	b := append([]*Term(nil), s.b...)
	for len(b) < n {
		b = append(b, BV(8, 0))
	}
	return b
}

func iteVal(c *Term, a, b Value) Value {
	if c == True {
		return a
	}
	if c == False {
		return b
	}
	switch x := a.(type) {
	case *Term:
		y, ok := b.(*Term)
		if !ok {
			panic(fmt.Sprintf("iteVal: Term vs %T", b))
		}
		return Ite(c, x, y)
	case StructV:
		y := b.(StructV)
		r := StructV{f: make([]Value, len(x.f))}
		for i := range x.f {
			r.f[i] = iteVal(c, x.f[i], y.f[i])
		}
		return r
	case ArrayV:
		y := b.(ArrayV)
		r := ArrayV{e: make([]Value, len(x.e))}
		for i := range x.e {
			r.e[i] = iteVal(c, x.e[i], y.e[i])
		}
		return r
	case StringV:
		y := b.(StringV)
		n := len(x.b)
		if len(y.b) > n {
			n = len(y.b)
		}
		xb, yb := padStr(x, n), padStr(y, n)
		r := StringV{n: Ite(c, x.n, y.n), b: make([]*Term, n)}
		for i := 0; i < n; i++ {
			r.b[i] = Ite(c, xb[i], yb[i])
		}
		return r
	case PtrV:
		y := b.(PtrV)
		var r PtrV
		add := func(al PtrAlt, g *Term) {
			al.g = And(al.g, g)
			if al.g == False {
				return
			}
			for i := range r.alts {
				if r.alts[i].obj == al.obj && samePath(r.alts[i].path, al.path) {
					r.alts[i].g = Or(r.alts[i].g, al.g)
					return
				}
			}
			r.alts = append(r.alts, al)
		}
		for _, al := range x.alts {
			add(al, c)
		}
		for _, al := range y.alts {
			add(al, Not(c))
		}
		return r
	case SliceV:
		y := b.(SliceV)
		var r SliceV
		add := func(al SliceAlt, g *Term) {
			al.g = And(al.g, g)
			if al.g == False {
				return
			}
			for i := range r.alts {
				o := &r.alts[i]
				if o.obj == al.obj {
					o.off = Ite(al.g, al.off, o.off)
					o.ln = Ite(al.g, al.ln, o.ln)
					o.cap = Ite(al.g, al.cap, o.cap)
					o.g = Or(o.g, al.g)
					return
				}
			}
			r.alts = append(r.alts, al)
		}
		for _, al := range x.alts {
			add(al, c)
		}
		for _, al := range y.alts {
			add(al, Not(c))
		}
		return r
	case MapV:
		y := b.(MapV)
		var r MapV
		add := func(al MapAlt, g *Term) {
			al.g = And(al.g, g)
			if al.g == False {
				return
			}
			for i := range r.alts {
				if r.alts[i].m == al.m {
					r.alts[i].g = Or(r.alts[i].g, al.g)
					return
				}
			}
			r.alts = append(r.alts, al)
		}
		for _, al := range x.alts {
			add(al, c)
		}
		for _, al := range y.alts {
			add(al, Not(c))
		}
		return r
	case ChanV:
		y := b.(ChanV)
		var r ChanV
		add := func(al ChanAlt, g *Term) {
			al.g = And(al.g, g)
			if al.g == False {
				return
			}
			for i := range r.alts {
				if r.alts[i].ch == al.ch {
					r.alts[i].g = Or(r.alts[i].g, al.g)
					return
				}
			}
			r.alts = append(r.alts, al)
		}
		for _, al := range x.alts {
			add(al, c)
		}
		for _, al := range y.alts {
			add(al, Not(c))
		}
		return r
	case IfaceV:
		y := b.(IfaceV)
		var r IfaceV
		add := func(al IfaceAlt, g *Term) {
			al.g = And(al.g, g)
			if al.g == False {
				return
			}
			for i := range r.alts {
				o := &r.alts[i]
				if (o.typ == nil && al.typ == nil) || (o.typ != nil && al.typ != nil && types.Identical(o.typ, al.typ)) {
					if o.typ != nil {
						o.val = iteVal(al.g, al.val, o.val)
					}
					o.g = Or(o.g, al.g)
					return
				}
			}
			r.alts = append(r.alts, al)
		}
		for _, al := range x.alts {
			add(al, c)
		}
		for _, al := range y.alts {
			add(al, Not(c))
		}
		return r
	case FuncV:
		y := b.(FuncV)
		var r FuncV
		add := func(al FuncAlt, g *Term) {
			al.g = And(al.g, g)
			if al.g == False {
				return
			}
			for i := range r.alts {
				o := &r.alts[i]
				if o.fn == al.fn && len(o.free) == len(al.free) {
					nf := make([]Value, len(o.free))
					for k := range o.free {
						nf[k] = iteVal(al.g, al.free[k], o.free[k])
					}
					o.free = nf
					o.g = Or(o.g, al.g)
					return
				}
			}
			r.alts = append(r.alts, al)
		}
		for _, al := range x.alts {
			add(al, c)
		}
		for _, al := range y.alts {
			add(al, Not(c))
		}
		return r
	case TupleV:
		y := b.(TupleV)
		r := make(TupleV, len(x))
		for i := range x {
			r[i] = iteVal(c, x[i], y[i])
		}
		return r
	case IterV:
		return a
	case AbstractArr:
		return a
	case nil:
		return nil
	}
	panic(fmt.Sprintf("iteVal: %T", a))
}

func samePath(a, b []PathElem) bool {
	if len(a) != len(b) {
		return false
	}
	for i := range a {
		if a[i].field != b[i].field || a[i].idx != b[i].idx {
			return false
		}
	}
	return true
}

func strEq(x, y StringV) *Term {
	cs := []*Term{Eq(x.n, y.n)}
	n := len(x.b)
	if len(y.b) < n {
		n = len(y.b)
	}
	// lengths beyond the smaller capacity cannot be equal
	if len(x.b) != len(y.b) {
		cs = append(cs, Cmp("bvule", x.n, BV(IntW, uint64(n))))
	}
	if cs[0] == False {
		return False
	}
	for i := 0; i < n; i++ {
		inb := Cmp("bvult", BV(IntW, uint64(i)), x.n)
		if inb == False {
			break
		}
		cs = append(cs, Imp(inb, Eq(x.b[i], y.b[i])))
	}
	return And(cs...)
}

func eqVal(a, b Value) *Term {
	switch x := a.(type) {
	case *Term:
		return Eq(x, b.(*Term))
	case StringV:
		return strEq(x, b.(StringV))
	case StructV:
		y := b.(StructV)
		var cs []*Term
		for i := range x.f {
			c := eqVal(x.f[i], y.f[i])
			if c == False {
				return False
			}
			cs = append(cs, c)
		}
		return And(cs...)
	case ArrayV:
		y := b.(ArrayV)
		var cs []*Term
		for i := range x.e {
			cs = append(cs, eqVal(x.e[i], y.e[i]))
		}
		return And(cs...)
	case PtrV:
		y := b.(PtrV)
		var ds []*Term
		for _, p := range x.alts {
			for _, q := range y.alts {
				if p.obj == q.obj && samePath(p.path, q.path) {
					ds = append(ds, And(p.g, q.g))
				}
			}
		}
		return Or(ds...)
	case MapV: // only comparison with nil is legal
		y := b.(MapV)
		var ds []*Term
		for _, p := range x.alts {
			for _, q := range y.alts {
				if p.m == q.m {
					ds = append(ds, And(p.g, q.g))
				}
			}
		}
		return Or(ds...)
	case SliceV:
		y := b.(SliceV)
		var ds []*Term
		for _, p := range x.alts {
			for _, q := range y.alts {
				if p.obj == nil && q.obj == nil {
					ds = append(ds, And(p.g, q.g))
				}
			}
		}
		return Or(ds...)
	case ChanV:
		y := b.(ChanV)
		var ds []*Term
		for _, p := range x.alts {
			for _, q := range y.alts {
				if p.ch == q.ch {
					ds = append(ds, And(p.g, q.g))
				}
			}
		}
		return Or(ds...)
	case FuncV:
		y := b.(FuncV)
		var ds []*Term
		for _, p := range x.alts {
			for _, q := range y.alts {
				if p.fn == nil && q.fn == nil {
					ds = append(ds, And(p.g, q.g))
				}
			}
		}
		return Or(ds...)
	case IfaceV:
		y := b.(IfaceV)
		var ds []*Term
		for _, p := range x.alts {
			for _, q := range y.alts {
				if p.typ == nil && q.typ == nil {
					ds = append(ds, And(p.g, q.g))
				} else if p.typ != nil && q.typ != nil && types.Identical(p.typ, q.typ) {
					ds = append(ds, And(p.g, q.g, eqVal(p.val, q.val)))
				}
			}
		}
		return Or(ds...)
	case TupleV:
		y := b.(TupleV)
		var cs []*Term
		for i := range x {
			cs = append(cs, eqVal(x[i], y[i]))
		}
		return And(cs...)
	}
	panic(fmt.Sprintf("eqVal: %T", a))
}
