package main

import (
	"fmt"
	"sort"
	"strings"
)

// Term is a hash-consed SMT term. w==0 means Bool, otherwise BitVec(w), w<=64.
type Term struct {
	id     int
	op     string
	args   []*Term
	w      int
	val    uint64 // constants; extract: hi<<8|lo; zext/sext: extra bits
	name   string // variables, uninterpreted functions
	konst  bool   // literal constant
	ctree  bool   // constant or ite-tree of constants
	leaves int    // number of leaves of a ctree
}

type termKey struct {
	op         string
	w          int
	val        uint64
	name       string
	a0, a1, a2 int
	rest       string
}

// budgetHook is called every 65536 new terms (time / memory / size budgets of the running harness).
var budgetHook func()

var (
	termTab  = map[termKey]*Term{}
	nTerms   int
	True     = mk("true", 0, nil, 1, "")
	False    = mk("false", 0, nil, 0, "")
	varOrder []*Term
)

func mk(op string, w int, args []*Term, val uint64, name string) *Term {
	k := termKey{op: op, w: w, val: val, name: name, a0: -1, a1: -1, a2: -1}
	switch len(args) {
	case 0:
	case 1:
		k.a0 = args[0].id
	case 2:
		k.a0, k.a1 = args[0].id, args[1].id
	case 3:
		k.a0, k.a1, k.a2 = args[0].id, args[1].id, args[2].id
	default:
		var sb strings.Builder
		for _, a := range args {
			fmt.Fprintf(&sb, "%d,", a.id)
		}
		k.rest = sb.String()
	}
	if t, ok := termTab[k]; ok {
		return t
	}
	t := &Term{id: nTerms, op: op, args: args, w: w, val: val, name: name}
	nTerms++
	if nTerms&0xffff == 0 && budgetHook != nil {
		budgetHook()
	}
	switch op {
	case "true", "false", "bv":
		t.konst, t.ctree, t.leaves = true, true, 1
	case "ite":
		if args[1].ctree && args[2].ctree {
			t.ctree = true
			t.leaves = args[1].leaves + args[2].leaves
		}
	case "var":
		varOrder = append(varOrder, t)
	}
	termTab[k] = t
	return t
}

func mask(w int) uint64 {
	if w >= 64 {
		return ^uint64(0)
	}
	return (uint64(1) << uint(w)) - 1
}

func BV(w int, v uint64) *Term {
	if w == 0 {
		return Bool(v != 0)
	}
	return mk("bv", w, nil, v&mask(w), "")
}
func Bool(b bool) *Term {
	if b {
		return True
	}
	return False
}
func Var(name string, w int) *Term { return mk("var", w, nil, 0, name) }

// UF application: result sort w, function symbol name (arity/sorts derived from args).
func UF(name string, w int, args ...*Term) *Term {
	return mk("uf", w, args, 0, name)
}

func Not(a *Term) *Term {
	if a == True {
		return False
	}
	if a == False {
		return True
	}
	if a.op == "not" {
		return a.args[0]
	}
	return mk("not", 0, []*Term{a}, 0, "")
}

func And(xs ...*Term) *Term {
	var out []*Term
	seen := map[int]bool{}
	for _, x := range xs {
		if x == False {
			return False
		}
		if x == True || seen[x.id] {
			continue
		}
		if x.op == "and" {
			for _, y := range x.args {
				if !seen[y.id] {
					seen[y.id] = true
					out = append(out, y)
				}
			}
			continue
		}
		seen[x.id] = true
		out = append(out, x)
	}
	for _, x := range out {
		if x.op == "not" && seen[x.args[0].id] {
			return False
		}
	}
	if len(out) == 0 {
		return True
	}
	if len(out) == 1 {
		return out[0]
	}
	sort.Slice(out, func(i, j int) bool { return out[i].id < out[j].id })
	return mk("and", 0, out, 0, "")
}

func Or(xs ...*Term) *Term {
	var out []*Term
	seen := map[int]bool{}
	for _, x := range xs {
		if x == True {
			return True
		}
		if x == False || seen[x.id] {
			continue
		}
		if x.op == "or" {
			for _, y := range x.args {
				if !seen[y.id] {
					seen[y.id] = true
					out = append(out, y)
				}
			}
			continue
		}
		seen[x.id] = true
		out = append(out, x)
	}
	for _, x := range out {
		if x.op == "not" && seen[x.args[0].id] {
			return True
		}
	}
	if len(out) == 0 {
		return False
	}
	if len(out) == 1 {
		return out[0]
	}
	sort.Slice(out, func(i, j int) bool { return out[i].id < out[j].id })
	return mk("or", 0, out, 0, "")
}

func Imp(a, b *Term) *Term { return Or(Not(a), b) }

func Ite(c, a, b *Term) *Term {
	if c == True {
		return a
	}
	if c == False {
		return b
	}
	if a == b {
		return a
	}
	if a.w != b.w {
		panic(fmt.Sprintf("Ite width mismatch %d vs %d", a.w, b.w))
	}
	if a.w == 0 {
		if a == True && b == False {
			return c
		}
		if a == False && b == True {
			return Not(c)
		}
		if a == True {
			return Or(c, b)
		}
		if b == False {
			return And(c, a)
		}
		if a == False {
			return And(Not(c), b)
		}
		if b == True {
			return Or(Not(c), a)
		}
	}
	if c.op == "not" {
		return Ite(c.args[0], b, a)
	}
	// ite(c, x, ite(c, y, z)) = ite(c, x, z); ite(c, ite(c,x,y), z) = ite(c,x,z)
	if b.op == "ite" && b.args[0] == c {
		return Ite(c, a, b.args[2])
	}
	if a.op == "ite" && a.args[0] == c {
		return Ite(c, a.args[1], b)
	}
	// ite(c, x, ite(d, x, y)) = ite(c||d, x, y)
	if b.op == "ite" && b.args[1] == a {
		return Ite(Or(c, b.args[0]), a, b.args[2])
	}
	return mk("ite", a.w, []*Term{c, a, b}, 0, "")
}

const maxPushLeaves = 256

func ZExt(a *Term, w int) *Term {
	if a.w == w {
		return a
	}
	if a.w > w {
		panic("ZExt narrowing")
	}
	if a.konst {
		return BV(w, a.val)
	}
	if a.ctree {
		return Ite(a.args[0], ZExt(a.args[1], w), ZExt(a.args[2], w))
	}
	return mk("zext", w, []*Term{a}, uint64(w-a.w), "")
}

func SExt(a *Term, w int) *Term {
	if a.w == w {
		return a
	}
	if a.w > w {
		panic("SExt narrowing")
	}
	if a.konst {
		return BV(w, uint64(signed(a.val, a.w)))
	}
	if a.ctree {
		return Ite(a.args[0], SExt(a.args[1], w), SExt(a.args[2], w))
	}
	return mk("sext", w, []*Term{a}, uint64(w-a.w), "")
}

// Extract bits [hi:lo] (inclusive).
func Extract(a *Term, hi, lo int) *Term {
	w := hi - lo + 1
	if lo == 0 && w == a.w {
		return a
	}
	if a.konst {
		return BV(w, a.val>>uint(lo))
	}
	if a.ctree {
		return Ite(a.args[0], Extract(a.args[1], hi, lo), Extract(a.args[2], hi, lo))
	}
	if (a.op == "zext" || a.op == "sext") && hi < a.args[0].w {
		return Extract(a.args[0], hi, lo)
	}
	if a.op == "zext" && lo >= a.args[0].w {
		return BV(w, 0)
	}
	if a.op == "concat" {
		lw := a.args[1].w
		if hi < lw {
			return Extract(a.args[1], hi, lo)
		}
		if lo >= lw {
			return Extract(a.args[0], hi-lw, lo-lw)
		}
	}
	return mk("extract", w, []*Term{a}, uint64(hi)<<8|uint64(lo), "")
}

// Trunc/extend helper for integer conversions.
func Resize(a *Term, w int, signedSrc bool) *Term {
	if a.w == w {
		return a
	}
	if a.w > w {
		return Extract(a, w-1, 0)
	}
	if signedSrc {
		return SExt(a, w)
	}
	return ZExt(a, w)
}

func Concat(hi, lo *Term) *Term {
	if hi.konst && lo.konst {
		return BV(hi.w+lo.w, hi.val<<uint(lo.w)|lo.val)
	}
	if hi.konst && hi.val == 0 {
		return ZExt(lo, hi.w+lo.w)
	}
	return mk("concat", hi.w+lo.w, []*Term{hi, lo}, 0, "")
}

func Eq(a, b *Term) *Term {
	if a == b {
		return True
	}
	if a.w != b.w {
		panic(fmt.Sprintf("Eq width mismatch %d vs %d (%s, %s)", a.w, b.w, a.op, b.op))
	}
	if a.konst && b.konst {
		return Bool(a.val == b.val)
	}
	if a.op == "zext" && b.op == "zext" && a.args[0].w == b.args[0].w {
		return Eq(a.args[0], b.args[0])
	}
	if a.op == "zext" && b.konst {
		if b.val > mask(a.args[0].w) {
			return False
		}
		return Eq(a.args[0], BV(a.args[0].w, b.val))
	}
	if b.op == "zext" && a.konst {
		return Eq(b, a)
	}
	if a.w == 0 {
		if a == True {
			return b
		}
		if b == True {
			return a
		}
		if a == False {
			return Not(b)
		}
		if b == False {
			return Not(a)
		}
	}
	if a.ctree && b.ctree && a.leaves*b.leaves <= maxPushLeaves {
		if a.op == "ite" {
			return Ite(a.args[0], Eq(a.args[1], b), Eq(a.args[2], b))
		}
		return Ite(b.args[0], Eq(a, b.args[1]), Eq(a, b.args[2]))
	}
	// (ite c k1 k2) == k with arbitrary other branch: still push when one branch decides
	if b.konst && a.op == "ite" && (a.args[1].konst || a.args[2].konst) {
		return Ite(a.args[0], Eq(a.args[1], b), Eq(a.args[2], b))
	}
	if a.konst && b.op == "ite" && (b.args[1].konst || b.args[2].konst) {
		return Ite(b.args[0], Eq(a, b.args[1]), Eq(a, b.args[2]))
	}
	// x + c1 == c2  => x == c2-c1
	if b.konst && a.op == "bvadd" && a.args[1].konst {
		return Eq(a.args[0], BV(a.w, b.val-a.args[1].val))
	}
	if a.konst && b.op == "bvadd" && b.args[1].konst {
		return Eq(b.args[0], BV(a.w, a.val-b.args[1].val))
	}
	if a.id > b.id {
		a, b = b, a
	}
	return mk("=", 0, []*Term{a, b}, 0, "")
}

func signed(v uint64, w int) int64 {
	if w < 64 && v&(uint64(1)<<uint(w-1)) != 0 {
		return int64(v | ^mask(w))
	}
	return int64(v)
}

func foldBin(op string, w int, x, y uint64) (uint64, bool) {
	switch op {
	case "bvadd":
		return x + y, true
	case "bvsub":
		return x - y, true
	case "bvmul":
		return x * y, true
	case "bvand":
		return x & y, true
	case "bvor":
		return x | y, true
	case "bvxor":
		return x ^ y, true
	case "bvshl":
		if y >= uint64(w) {
			return 0, true
		}
		return x << y, true
	case "bvlshr":
		if y >= uint64(w) {
			return 0, true
		}
		return x >> y, true
	case "bvashr":
		sx := signed(x, w)
		if y >= uint64(w) {
			if sx < 0 {
				return ^uint64(0), true
			}
			return 0, true
		}
		return uint64(sx >> y), true
	case "bvudiv":
		if y == 0 {
			return mask(w), true
		}
		return x / y, true
	case "bvurem":
		if y == 0 {
			return x, true
		}
		return x % y, true
	case "bvsdiv":
		sx, sy := signed(x, w), signed(y, w)
		if sy == 0 {
			if sx < 0 {
				return 1, true
			}
			return mask(w), true
		}
		if sy == -1 {
			return uint64(-sx), true
		}
		return uint64(sx / sy), true
	case "bvsrem":
		sx, sy := signed(x, w), signed(y, w)
		if sy == 0 {
			return x, true
		}
		if sy == -1 {
			return 0, true
		}
		return uint64(sx % sy), true
	}
	return 0, false
}

// ubound returns an upper bound of the unsigned value of a term when one is syntactically evident
// (constants, ite-trees, sums and products without wrap-around, zero extensions).
var uboundMemo = map[int][2]uint64{}

// lemmas are valid bit-vector facts about terms that occur in the encoding; they are added to every query.
var lemmas []*Term
var lemmaSeen = map[int]bool{}

func ubound(t *Term) (uint64, bool) {
	if t.konst {
		return t.val, true
	}
	if m, ok := uboundMemo[t.id]; ok {
		return m[0], m[1] == 1
	}
	var r uint64
	ok := false
	lim := mask(t.w)
	switch t.op {
	case "ite":
		a, oka := ubound(t.args[1])
		b, okb := ubound(t.args[2])
		if oka && okb {
			r, ok = a, true
			if b > a {
				r = b
			}
		}
	case "zext":
		r, ok = ubound(t.args[0])
		if !ok {
			r, ok = mask(t.args[0].w), true
		}
	case "bvadd":
		a, oka := ubound(t.args[0])
		b, okb := ubound(t.args[1])
		if oka && okb && a <= lim-b && a+b <= lim {
			r, ok = a+b, true
		}
	case "bvmul":
		a, oka := ubound(t.args[0])
		b, okb := ubound(t.args[1])
		if oka && okb && (a == 0 || b <= lim/a) {
			r, ok = a*b, true
		}
	case "extract":
		r, ok = mask(t.w), true
	}
	if ok {
		uboundMemo[t.id] = [2]uint64{r, 1}
	} else {
		uboundMemo[t.id] = [2]uint64{0, 0}
	}
	return r, ok
}

func BinBV(op string, a, b *Term) *Term {
	w := a.w
	if a.w != b.w {
		panic(fmt.Sprintf("BinBV %s width mismatch %d vs %d", op, a.w, b.w))
	}
	// (x * c) / c = x and (x * c) % c = 0 when x * c cannot wrap (bound evident from the term)
	if (op == "bvsdiv" || op == "bvudiv" || op == "bvsrem" || op == "bvurem") && b.konst && b.val != 0 && a.op == "bvmul" && a.args[1] == b {
		if ux, ok := ubound(a.args[0]); ok && signed(b.val, w) > 0 && ux <= (mask(w)>>1)/b.val {
			if op == "bvsdiv" || op == "bvudiv" {
				return a.args[0]
			}
			return BV(w, 0)
		}
		// otherwise hand the solver the (valid) arithmetic lemma for this very term:
		//   0 <= x <= maxint/c  =>  (x*c)/c = x  and  (x*c)%c = 0
		if signed(b.val, w) > 0 {
			x := a.args[0]
			t := mk(op, w, []*Term{a, b}, 0, "")
			if !lemmaSeen[t.id] {
				lemmaSeen[t.id] = true
				inRange := And(Cmp("bvsle", BV(w, 0), x), Cmp("bvsle", x, BV(w, (mask(w)>>1)/b.val)))
				var concl *Term
				if op == "bvsdiv" || op == "bvudiv" {
					concl = Eq(t, x)
				} else {
					concl = Eq(t, BV(w, 0))
				}
				lemmas = append(lemmas, Imp(inRange, concl))
			}
			return t
		}
	}
	if a.konst && b.konst {
		if v, ok := foldBin(op, w, a.val, b.val); ok {
			return BV(w, v)
		}
	}
	// push through constant trees
	if a.ctree && b.ctree && a.leaves*b.leaves <= maxPushLeaves {
		if a.op == "ite" {
			return Ite(a.args[0], BinBV(op, a.args[1], b), BinBV(op, a.args[2], b))
		}
		if b.op == "ite" {
			return Ite(b.args[0], BinBV(op, a, b.args[1]), BinBV(op, a, b.args[2]))
		}
	}
	switch op {
	case "bvadd":
		if a.konst && !b.konst {
			a, b = b, a
		}
		if b.konst && b.val == 0 {
			return a
		}
		if b.konst && a.op == "bvadd" && a.args[1].konst {
			return BinBV("bvadd", a.args[0], BV(w, a.args[1].val+b.val))
		}
		if b.konst && a.op == "ite" && (a.args[1].konst || a.args[2].konst) {
			return Ite(a.args[0], BinBV(op, a.args[1], b), BinBV(op, a.args[2], b))
		}
	case "bvsub":
		if b.konst {
			return BinBV("bvadd", a, BV(w, -b.val))
		}
		if a == b {
			return BV(w, 0)
		}
		// (x + c) - x = c
		if a.op == "bvadd" && a.args[0] == b {
			return a.args[1]
		}
	case "bvmul":
		if a.konst && !b.konst {
			a, b = b, a
		}
		if b.konst && b.val == 1 {
			return a
		}
		if b.konst && b.val == 0 {
			return b
		}
	case "bvand":
		if a.konst && !b.konst {
			a, b = b, a
		}
		if b.konst && b.val == 0 {
			return b
		}
		if b.konst && b.val == mask(w) {
			return a
		}
		if a == b {
			return a
		}
	case "bvor", "bvxor":
		if a.konst && !b.konst {
			a, b = b, a
		}
		if b.konst && b.val == 0 {
			return a
		}
		if a == b && op == "bvor" {
			return a
		}
	case "bvshl", "bvlshr", "bvashr":
		if b.konst && b.val == 0 {
			return a
		}
	}
	return mk(op, w, []*Term{a, b}, 0, "")
}

func BVNot(a *Term) *Term {
	if a.konst {
		return BV(a.w, ^a.val)
	}
	if a.op == "bvnot" {
		return a.args[0]
	}
	return mk("bvnot", a.w, []*Term{a}, 0, "")
}

func BVNeg(a *Term) *Term {
	if a.konst {
		return BV(a.w, -a.val)
	}
	if a.ctree {
		return Ite(a.args[0], BVNeg(a.args[1]), BVNeg(a.args[2]))
	}
	return mk("bvneg", a.w, []*Term{a}, 0, "")
}

func Cmp(op string, a, b *Term) *Term {
	if a.w != b.w {
		panic(fmt.Sprintf("Cmp %s width mismatch %d vs %d", op, a.w, b.w))
	}
	if a.konst && b.konst {
		switch op {
		case "bvult":
			return Bool(a.val < b.val)
		case "bvule":
			return Bool(a.val <= b.val)
		case "bvslt":
			return Bool(signed(a.val, a.w) < signed(b.val, b.w))
		case "bvsle":
			return Bool(signed(a.val, a.w) <= signed(b.val, b.w))
		}
	}
	if a == b {
		return Bool(op == "bvule" || op == "bvsle")
	}
	if a.ctree && b.ctree && a.leaves*b.leaves <= maxPushLeaves {
		if a.op == "ite" {
			return Ite(a.args[0], Cmp(op, a.args[1], b), Cmp(op, a.args[2], b))
		}
		return Ite(b.args[0], Cmp(op, a, b.args[1]), Cmp(op, a, b.args[2]))
	}
	if op == "bvult" && b.konst && b.val == 0 {
		return False
	}
	if op == "bvule" && a.konst && a.val == 0 {
		return True
	}
	// zext(x) <u k
	if (op == "bvult" || op == "bvule") && a.op == "zext" && b.konst {
		nw := a.args[0].w
		if b.val > mask(nw) {
			return True
		}
		return Cmp(op, a.args[0], BV(nw, b.val))
	}
	if (op == "bvslt" || op == "bvsle") && a.op == "zext" && b.konst && signed(b.val, b.w) >= 0 {
		nw := a.args[0].w
		if b.val > mask(nw) {
			return True
		}
		uop := "bvult"
		if op == "bvsle" {
			uop = "bvule"
		}
		return Cmp(uop, a.args[0], BV(nw, b.val))
	}
	if (op == "bvslt" || op == "bvsle") && b.op == "zext" && a.konst && signed(a.val, a.w) >= 0 {
		nw := b.args[0].w
		if a.val > mask(nw) {
			return False
		}
		uop := "bvult"
		if op == "bvsle" {
			uop = "bvule"
		}
		return Cmp(uop, BV(nw, a.val), b.args[0])
	}
	return mk(op, 0, []*Term{a, b}, 0, "")
}

// maxConst returns an upper bound (unsigned) for a term if it is a constant tree.
func maxConst(t *Term) (uint64, bool) {
	// upper bound evident from the term (memoised; a plain recursion over an ite-tree of constants is
	// exponential in the DAG depth)
	return ubound(t)
}

// ctreeLeaves lists (condition, value) pairs of a constant tree.
func ctreeLeaves(t *Term, g *Term, out *[]ctLeaf) {
	if t.konst {
		*out = append(*out, ctLeaf{g, t.val})
		return
	}
	ctreeLeaves(t.args[1], And(g, t.args[0]), out)
	ctreeLeaves(t.args[2], And(g, Not(t.args[0])), out)
}

type ctLeaf struct {
	g *Term
	v uint64
}

// distinct values of a ctree with merged conditions
func ctreeCases(t *Term) []ctLeaf {
	var ls []ctLeaf
	ctreeLeaves(t, True, &ls)
	m := map[uint64]int{}
	var out []ctLeaf
	for _, l := range ls {
		if i, ok := m[l.v]; ok {
			out[i].g = Or(out[i].g, l.g)
		} else {
			m[l.v] = len(out)
			out = append(out, l)
		}
	}
	sort.Slice(out, func(i, j int) bool { return out[i].v < out[j].v })
	return out
}

// ---- SMT-LIB emission (DAG as define-fun chain) ----

func sortStr(w int) string {
	if w == 0 {
		return "Bool"
	}
	return fmt.Sprintf("(_ BitVec %d)", w)
}

type emitter struct {
	names map[int]string
	sb    *strings.Builder
	ufs   map[string]bool
	nodes int
}

func newEmitter(sb *strings.Builder) *emitter {
	return &emitter{names: map[int]string{}, sb: sb, ufs: map[string]bool{}}
}

func smtSym(s string) string {
	ok := true
	for _, c := range s {
		if !(c >= 'a' && c <= 'z' || c >= 'A' && c <= 'Z' || c >= '0' && c <= '9' || c == '_' || c == '.' || c == '!' || c == '$') {
			ok = false
		}
	}
	if ok && len(s) > 0 && !(s[0] >= '0' && s[0] <= '9') {
		return "v." + s
	}
	return "|v." + strings.NewReplacer("|", "_", "\\", "_").Replace(s) + "|"
}

func (e *emitter) emit(root *Term) string {
	if n, ok := e.names[root.id]; ok {
		return n
	}
	// iterative post-order to avoid deep recursion
	type fr struct {
		t *Term
		i int
	}
	stack := []fr{{root, 0}}
	for len(stack) > 0 {
		top := &stack[len(stack)-1]
		if _, ok := e.names[top.t.id]; ok {
			stack = stack[:len(stack)-1]
			continue
		}
		if top.i < len(top.t.args) {
			a := top.t.args[top.i]
			top.i++
			if _, ok := e.names[a.id]; !ok {
				stack = append(stack, fr{a, 0})
			}
			continue
		}
		t := top.t
		stack = stack[:len(stack)-1]
		e.define(t)
	}
	return e.names[root.id]
}

func (e *emitter) define(t *Term) {
	sb := e.sb
	switch t.op {
	case "true", "false":
		e.names[t.id] = t.op
		return
	case "bv":
		e.names[t.id] = fmt.Sprintf("(_ bv%d %d)", t.val, t.w)
		return
	case "var":
		n := smtSym(t.name)
		e.names[t.id] = n
		fmt.Fprintf(sb, "(declare-const %s %s)\n", n, sortStr(t.w))
		return
	}
	n := fmt.Sprintf("n%d", t.id)
	var as []string
	for _, a := range t.args {
		as = append(as, e.names[a.id])
	}
	var body string
	switch t.op {
	case "zext":
		body = fmt.Sprintf("((_ zero_extend %d) %s)", t.val, as[0])
	case "sext":
		body = fmt.Sprintf("((_ sign_extend %d) %s)", t.val, as[0])
	case "extract":
		body = fmt.Sprintf("((_ extract %d %d) %s)", t.val>>8, t.val&0xff, as[0])
	case "uf":
		fn := smtSym("uf." + t.name)
		if !e.ufs[fn] {
			e.ufs[fn] = true
			var ss []string
			for _, a := range t.args {
				ss = append(ss, sortStr(a.w))
			}
			fmt.Fprintf(sb, "(declare-fun %s (%s) %s)\n", fn, strings.Join(ss, " "), sortStr(t.w))
		}
		if len(as) == 0 {
			body = fn
		} else {
			body = fmt.Sprintf("(%s %s)", fn, strings.Join(as, " "))
		}
	default:
		body = fmt.Sprintf("(%s %s)", t.op, strings.Join(as, " "))
	}
	fmt.Fprintf(sb, "(define-fun %s () %s %s)\n", n, sortStr(t.w), body)
	e.names[t.id] = n
	e.nodes++
}

// evalTerm evaluates a term under a (partial) assignment of variables; missing variables are 0.
func evalTerm(t *Term, asg map[string]uint64, memo map[int]uint64) uint64 {
	if v, ok := memo[t.id]; ok {
		return v
	}
	var r uint64
	arg := func(i int) uint64 { return evalTerm(t.args[i], asg, memo) }
	b2u := func(b bool) uint64 {
		if b {
			return 1
		}
		return 0
	}
	switch t.op {
	case "true":
		r = 1
	case "false":
		r = 0
	case "bv":
		r = t.val
	case "var":
		r = asg[t.name] & mask64(t.w)
	case "not":
		r = 1 - arg(0)
	case "and":
		r = 1
		for i := range t.args {
			if arg(i) == 0 {
				r = 0
				break
			}
		}
	case "or":
		r = 0
		for i := range t.args {
			if arg(i) != 0 {
				r = 1
				break
			}
		}
	case "ite":
		if arg(0) != 0 {
			r = arg(1)
		} else {
			r = arg(2)
		}
	case "=":
		r = b2u(arg(0) == arg(1))
	case "zext":
		r = arg(0)
	case "sext":
		r = uint64(signed(arg(0), t.args[0].w)) & mask(t.w)
	case "extract":
		r = (arg(0) >> (t.val & 0xff)) & mask(t.w)
	case "concat":
		r = arg(0)<<uint(t.args[1].w) | arg(1)
	case "bvnot":
		r = ^arg(0) & mask(t.w)
	case "bvneg":
		r = -arg(0) & mask(t.w)
	case "bvult":
		r = b2u(arg(0) < arg(1))
	case "bvule":
		r = b2u(arg(0) <= arg(1))
	case "bvslt":
		r = b2u(signed(arg(0), t.args[0].w) < signed(arg(1), t.args[0].w))
	case "bvsle":
		r = b2u(signed(arg(0), t.args[0].w) <= signed(arg(1), t.args[0].w))
	case "uf":
		panic("evalTerm: uf")
	default:
		v, ok := foldBin(t.op, t.w, arg(0), arg(1))
		if !ok {
			panic("evalTerm: op " + t.op)
		}
		r = v & mask(t.w)
	}
	memo[t.id] = r
	return r
}

func mask64(w int) uint64 {
	if w == 0 {
		return 1
	}
	return mask(w)
}

func termSize(roots []*Term) int {
	seen := map[int]bool{}
	var st []*Term
	st = append(st, roots...)
	for len(st) > 0 {
		t := st[len(st)-1]
		st = st[:len(st)-1]
		if seen[t.id] {
			continue
		}
		seen[t.id] = true
		st = append(st, t.args...)
	}
	return len(seen)
}

func termStr(t *Term, depth int) string {
	if depth == 0 {
		return fmt.Sprintf("#%d", t.id)
	}
	switch t.op {
	case "true", "false":
		return t.op
	case "bv":
		return fmt.Sprintf("%d", t.val)
	case "var":
		return t.name
	}
	var as []string
	for _, a := range t.args {
		as = append(as, termStr(a, depth-1))
	}
	return "(" + t.op + " " + strings.Join(as, " ") + ")"
}

// termHistogram prints which operators fill the term table (development aid).
func termHistogram() {
	cnt := map[string]int{}
	args := map[string]int{}
	for _, t := range termTab {
		cnt[t.op]++
		args[t.op] += len(t.args)
	}
	wc := map[int]int{}
	var mx uint64
	for _, t := range termTab {
		if t.op == "bv" {
			wc[t.w]++
			if t.val > mx && t.w == 64 && t.val < 1<<62 {
				mx = t.val
			}
		}
	}
	fmt.Printf("TERMHIST consts by width %v max small 64-bit %d\n", wc, mx)
	for op, n := range cnt {
		fmt.Printf("TERMHIST %-10s %9d avg args %.1f\n", op, n, float64(args[op])/float64(n))
	}
}
