package main

func registry() []PropSpec {
	return []PropSpec{
		{
			ID: "C09",
			Quick: []HarnessSpec{
				{Pkg: pkgInternal, Func: "H09a_q", Unwind: 6, Note: "read(k): k<=4 bytes, <=3 Read calls each returning symbolic (n<=len(p), err in {nil,EOF,other})"},
				{Pkg: pkgInternal, Func: "H09b_q", Unwind: 6, Note: "readDelimitedMessageRaw: symbolic 4-byte prefix + body <=2 bytes, max size 0..2, <=4 Read calls"},
				{Pkg: pkgInternal, Func: "H09d_q", Unwind: 6, Note: "as H09b plus a reader that may block forever at any call (stall); timer branch"},
			},
			Stubs: []string{"io.Reader = script reader with symbolic (n, err) per call, assumed to end/fail/complete within the stated number of calls", "goroutine in readDelimitedMessageRaw runs to completion (or until it blocks) at the spawn point; time.After is ready nondeterministically and fires when nothing else is ready"},
			Out:   []string{"JSON wire variant (encoding/json)", "real timers", "proto.Marshal/Unmarshal"},
		},
		{
			ID: "C08",
			Quick: []HarnessSpec{
				{Pkg: pkgCC, Func: "H08a_q", Unwind: 6, Recur: 8, Note: "<=2 patterns x <=3 components over {a,b,*,**}; name <=3 components over {a,b}"},
			},
			Stubs: []string{"component strings drawn from a finite alphabet of constant strings"},
			Out:   []string{"known-failing/known-flaky conflict rejection inside run()"},
		},
	}
}
