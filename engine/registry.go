package main

func registry() []PropSpec {
	return []PropSpec{
		{
			ID: "C08",
			Quick: []HarnessSpec{
				{Pkg: pkgCC, Func: "H08a_q", Unwind: 6, Recur: 8, Note: "<=2 patterns x <=3 components over {a,b,*,**}; name <=3 components over {a,b}"},
			},
			Stubs: []string{"component strings drawn from a finite alphabet of constant strings"},
			Out:   []string{"known-failing/known-flaky conflict rejection inside run()"},
		},
	}
}
