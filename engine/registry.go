package main

import (
	"fmt"
	"strings"
)

const ccp = "connectrpc.com/conformance/internal/app/connectconformance."
const rc = "connectrpc.com/conformance/internal/app/referenceclient."

func registry() []PropSpec {
	return []PropSpec{
		{
			ID: "C20",
			Quick: []HarnessSpec{
				{Pkg: pkgCompression, Func: "H20b_q", Unwind: 12, Note: "zstd decompressor wrapper: every history of 4 operations from {Reset(input 1), Reset(input 2), Read, Close} on one pooled instance"},
				{Pkg: pkgCompression, Func: "H20d_q", Unwind: 12, Only: []string{"compress/zlib.NewReader=vModelZlibNewReader"}, Note: "pooled deflate decompressor: every history of 4 operations from {Reset(valid 1), Reset(valid 2), Reset(corrupt header), Reset(truncated body), Read, Close}; zlib reader is a stub with zlib's sticky error"},
				{Pkg: pkgTracer, Func: "H20n_q", Unwind: 12, Only: []string{"connectrpc.com/conformance/internal/compression.GetDecompressor=vModelGetDecompressorTag"}, Note: "tracer.GetDecompressor for 10 encoding names (the 6 supported ones, empty, two in other letter case, one unknown)"},
			},
			Stubs: []string{"the zstd library decoder is a contract stub (attached input, closed flag); natively the real klauspost/zstd runs on real zstd streams"},
			Out:   []string{"the round trip itself and behaviour after malformed input for all six algorithms (loops of third-party compression code: the family's textbook weak target)", "the name <-> enum mapping across packages (constructors of third-party writers are not encodable)"},
		},
		{
			ID: "C15",
			Quick: []HarnessSpec{
				{Pkg: pkgTracer, Func: "H15a_q", Unwind: 8, Note: "tracingHTTP2Conn.Read/Write/Close against a fake conn returning n in 0..4 and nil / error / timeout error, client and server side"},
				{Pkg: pkgTracer, Func: "H15k_q", Unwind: 30, Split: []SplitDim{{"cut", 0, 20}}, CaseNote: "case split: where the 20-byte stream is cut into two reads", Note: "http2FrameTracer.trace on a HEADERS frame with or without END_HEADERS followed by a CONTINUATION (resp. another frame), 1-byte payloads symbolic, every cut into two reads; emitFrame is the recording model (natively: the real framer and HPACK decoder on a really split request header block after the client preface)"},
				{Pkg: pkgTracer, Func: "H15k3_q", Unwind: 44, Split: []SplitDim{{"cut", 0, 30}}, CaseNote: "three frames (HEADERS, CONTINUATION without END_HEADERS, CONTINUATION with END_HEADERS; resp. three unrelated frames): case split: where the 30-byte stream is cut into two reads", Note: "three frames (HEADERS, CONTINUATION without END_HEADERS, CONTINUATION with END_HEADERS; resp. three unrelated frames): http2FrameTracer.trace on a HEADERS frame with or without END_HEADERS followed by a CONTINUATION (resp. another frame), 1-byte payloads symbolic, every cut into two reads; emitFrame is the recording model (natively: the real framer and HPACK decoder on a really split request header block after the client preface)"},
				{Pkg: pkgTracer, Func: "H15c_q", Unwind: 8, Note: "tracingHTTP2Conn.Read/Write hand exactly the bytes returned / given to the frame tracer of their direction, for n in 0..4 and nil / error / timeout error (also n>0 together with an error), client and server side"},
				{Pkg: pkgTracer, Func: "H15b_q", Unwind: 30, CaseGen: c15Cases(3), CaseNote: "case split: declared payload length of each of 2 frames (0..3) and every partition of the stream into 3 chunks; flags, stream ids and payload bytes symbolic", Note: "http2FrameTracer.trace (response direction): 2 frames of an unknown type, state checked after every chunk"},
				{Pkg: pkgTracer, Func: "H15r_q", Unwind: 12, Note: "http2RetryCollector: every well-formed history of <=5 operations (stream starts, is refused, completes for good, retry timer fires, connection dies) on two test names; the 3 s retry timer is a stub whose firing is an operation"},
				{Pkg: pkgTracer, Func: "H15d_q", Unwind: 12, UnwindFor: map[string]int{"vModelCanonicalKey": 24, "vModelToLower": 24, "cancel$1": 60, "cancel": 60}, Note: "server-side connection: request HEADERS, optional response HEADERS, response-direction DATA (handed to the stream's response data tracer as handleFrame does), then GOAWAY(0) / connection error / RST_STREAM"},
				{Pkg: pkgTracer, Func: "H15g_q", Unwind: 12, UnwindFor: map[string]int{"vModelCanonicalKey": 24, "vModelToLower": 24, "cancel$1": 60, "cancel": 60}, Note: "tracingHTTP2Conn.handleFrame (server side): every well-formed sequence of <=4 decoded frames on two streams - client HEADERS (open / trailers), server HEADERS (response / trailers), RST_STREAM from either side, GOAWAY from the server with last stream id 0/1/3/5 or from the client - with END_STREAM symbolic"},
			},
			Stubs: []string{"emitFrame (http2.Framer + HPACK) replaced by a frame counter in the engine; natively the real Framer parses the frames (unknown type, ignored by the connection tracer)", "http2.ReadFrameHeader = 9-byte big-endian model", "bytes.Buffer modelled on its fields"},
			Out:   []string{"HPACK, http2.Framer, attribution of frames to streams (handleFrame), GOAWAY / retry collector timers, request direction with the client preface"},
		},
		{
			ID: "C05",
			Quick: []HarnessSpec{
				{Pkg: pkgCC, Func: "H05a_q", Unwind: 12, Note: "filterGRPCImplTestCases on 2 permutations with symbolic protocol, HTTP version, codec, compression (4 values), TLS marker, raw request, raw response, for every (clientIsGRPC, serverIsGRPC)"},
				{Pkg: pkgCC, Func: "H05f_q", Unwind: 12, Recur: 10, Note: "testCaseFilter.apply on 3 names with run / skip tries each absent or one of 3 pattern sets"},
				{Pkg: pkgCC, Func: "H11_q", Unwind: 10, HookLimit: 3, Note: "request completion and server-instance match inside runTestCasesForServer (shared with C11)"},
				{Pkg: pkgCC, Func: "H05r_q", Unwind: 130, Recur: 12, Only: []string{ccp + "runTestCasesForServer=vModelRunBatch", ccp + "runClient=vModelRunClient", ccp + "runInProcess=vModelRunInProcess", ccp + "runCommand=vModelRunCommand", "golang.org/x/sync/semaphore.NewWeighted=vModelSemNew", "(*golang.org/x/sync/semaphore.Weighted).Acquire=vModelSemAcquire", "(*golang.org/x/sync/semaphore.Weighted).Release=vModelSemRelease"}, Note: "run() itself in server mode (reference client + gRPC reference client against one server command): one suite of 2 unary tests, 2 config cases (gRPC over HTTP/2, Connect over HTTP/1.1) = 2 server instances, --run and --skip each absent or one of 3 pattern sets (one of them matching only gRPC-peer names), --max-servers 1..2; processes cut away (scripted client, batch recorder, counting semaphore)"},
			},
			Thorough: []HarnessSpec{
{Pkg: pkgCC, Func: "H05r_t", Unwind: 130, Recur: 12, JobSecs: 900, ExecSecs: 700, Only: []string{ccp + "runTestCasesForServer=vModelRunBatch", ccp + "runClient=vModelRunClient", ccp + "runInProcess=vModelRunInProcess", ccp + "runCommand=vModelRunCommand", "golang.org/x/sync/semaphore.NewWeighted=vModelSemNew", "(*golang.org/x/sync/semaphore.Weighted).Acquire=vModelSemAcquire", "(*golang.org/x/sync/semaphore.Weighted).Release=vModelSemRelease"}, Note: "as H05r_q with 3 tests per instance (10 permutations) and --max-servers 1..3"},
			},
			Stubs: []string{"Any.UnmarshalNew = table lookup (real Any natively)", "proto.Clone = field-wise copy", "see C11 for the batch harness", "H05r: runClient = scripted client, runTestCasesForServer = recorder that records its cases as setup failures (natively the real one, with a server command that does not exist), runInProcess / runCommand = no starter, x/sync semaphore = counter whose Acquire blocks for good when no slot is free"},
			Out:   []string{"--max-servers bound under real concurrency, server lifetimes after SIGTERM, client death between batches, goroutine interleavings between batches (H05r runs each spawned batch to completion at the spawn point)"},
		},
		{
			ID: "C07",
			Quick: []HarnessSpec{
				{Pkg: pkgCC, Func: "H07n_q", Unwind: 12, Note: "generateTestCasePrefix: suite with 0..2 entries per relevant list and TLS reliance, two symbolic config cases admitted by it: prefixes equal iff the cases are equal"},
				{Pkg: pkgCC, Func: "H07d_q", Unwind: 8, UnwindFor: map[string]int{"vModelPathJoin": 12, "expandCases": 40, "expandSuite": 40, "populateExpectedResponses": 40, "groupTestCases": 40}, NoDedupe: true, Note: "a suite whose version / protocol / codec / compression list (one of them, symbolic) names its value twice, one unary test, one matching config case (TLS symbolic)"},
				{Pkg: pkgCC, Func: "H07t_q", Unwind: 8, UnwindFor: map[string]int{"vModelPathJoin": 12, "expandCases": 40, "expandSuite": 40, "populateExpectedResponses": 40, "groupTestCases": 40}, NoDedupe: true, Note: "TLS markers: suite TLS / client-cert reliance symbolic, one unary test whose definition already carries a server certificate and / or client credentials (symbolic), one config case with symbolic TLS / client-cert use: markers and server instance are the config case's"},
				{Pkg: pkgCC, Func: "H07a_q", Unwind: 8, UnwindFor: map[string]int{"vModelPathJoin": 12, "h07a": 400, "populateExpectedResponses": 400, "groupTestCases": 400}, JobSecs: 600, ExecSecs: 500, TimeoutMs: 120000, NoDedupe: true, FeasSecs: 5, Split: []SplitDim{{"s.nver", 0, 1}, {"s.nproto", 0, 1}, {"s.ncodec", 0, 1}, {"s.ncomp", 0, 1}, {"s.cvm", 0, 2}, {"s.mode", 0, 2}, {"mode", 1, 2}}, CaseNote: "case split: number of entries of each relevant list, Connect version mode, suite mode and run mode; list entries, reliance flags, test stream type and both config cases are symbolic", Note: "newTestCaseLibrary on one suite with symbolic directives (relevant HTTP versions / protocols / codecs / compressions 0..1 entry each, TLS / client-cert / GET / receive-limit reliance, Connect version mode, suite mode vs run mode), one test case of symbolic stream type, and one symbolic config case"},
			},
			Stubs: []string{"proto.Clone = field-wise copy", "path.Join on clean components, fmt.Sprintf of enum names abstracted (literal spelling of names is not checked)", "the 'all values' enum lists are bounded to two values per axis (natively too)", "map ranges without key de-duplication (maps observed as sets)"},
			Out:   []string{"literal spelling of test names (enum names are models of the generated String methods)", "stability across Go map iteration orders", "more than one suite / test case per suite"},
		},
		{
			ID: "C11",
			Quick: []HarnessSpec{
				{Pkg: pkgCC, Func: "H11b_q", Unwind: 40, HookLimit: 3, Note: "reference-server mode, one case: stderr of 0..2 lines (feedback for the case / unrelated 'x: y' / plain text), last line with or without newline; x-expect-* headers"},
				{Pkg: pkgCC, Func: "H11_q", Unwind: 10, HookLimit: 3, Note: "runTestCasesForServer, batch of 2 cases: start error, stdin write / close error, response read error, missing certificate under TLS, empty host, server exit before send k; per send the client refuses / answers (response, error result, callback error, neither) / answers later (delivered while the runner waits, or never)"},
			},
			Thorough: []HarnessSpec{
				{Pkg: pkgCC, Func: "H11_t", Unwind: 10, HookLimit: 4, JobSecs: 1800, ExecSecs: 1500, Note: "batch of 3 cases"},
			},
			Stubs: []string{"server process = fake controller with scripted stdin/stdout faults", "client = scripted clientRunner", "context.WithCancel = flag model", "delimited I/O stubbed in the engine, real bytes natively", "proto.Clone = field-wise copy", "WaitGroup.Wait lets the client deliver outstanding answers (block hook)", "bufio.Reader.ReadString = script of lines (real bufio natively); the stderr goroutine runs at spawn"},
			Out:   []string{"OS processes, real pipes, timing"},
		},
		{
			ID: "C16",
			Quick: []HarnessSpec{
				{Pkg: pkgTracer, Func: "H16b_q", Unwind: 10, Note: "builder: every sequence of 4 operations from {request data, request end (ok / error), response data, response end, cancel, response error, build()} on a server-side builder"},
				{Pkg: pkgTracer, Func: "H16a_q", Unwind: 10, HookLimit: 6, Note: "Tracer: every sequence of 4 operations from {Init, Complete, Clear, Await} over 2 test names; an Await that blocks lets the rest of the script run (nested waits included) and ends with its context when the script is over"},
			},
			Thorough: []HarnessSpec{
			},
			Stubs: []string{"context = fake with a done channel; sync.Mutex sequential; a blocked select runs the remaining operations of the script (atomic-step schedules), natively the waiter runs in a goroutine"},
			Out:   []string{"data races and interleavings inside a lock-protected section (needs a memory-model checker)", "client-side builder branches (HTTP version fix-up via reflection)"},
		},
		{
			ID: "C13",
			Quick: []HarnessSpec{
				{Pkg: pkgRefClient, Func: "H13g_q", Unwind: 12, Note: "1..3 traced HTTP operations under one call context (a followed redirect): no panic, the call's wire details stay available"},
				{Pkg: pkgRefClient, Func: "H13f_q", Unwind: 12, Only: []string{"(*encoding/base64.Encoding).DecodeString=vModelB64DecodeString", "google.golang.org/protobuf/proto.Unmarshal=vModelUnmarshalStatus"}, Note: "checkGRPCStatus: grpc-status 0..16, grpc-message (present or not) = PercentEncodeMessage of any ASCII string of <=2 bytes, grpc-status-details-bin carrying any code 0..16, 0..1 details and any ASCII message of <=2 bytes: no feedback iff the three agree; base64 / protobuf decoding are contract stubs symbolically and real natively"},
				{Pkg: pkgRefClient, Func: "H13e_q", Unwind: 12, Only: []string{rc + "examineConnectError=vModelExamineConnectError", rc + "examineConnectEndStream=vModelExamineConnectEndStream", rc + "examineGRPCEndStream=vModelExamineGRPCEndStream", rc + "checkGRPCStatus=vModelCheckGRPCStatus"}, Note: "examineWireDetails dispatch: 9 content types (Connect unary/stream, gRPC-Web, gRPC, others), status 200/400, HTTP trailer present or not, body-data event, end-stream event, trace error; the four examiners are recorders symbolically (natively the real ones run on well-formed contents)"},
				{Pkg: pkgRefClient, Func: "H13a_q", Unwind: 24, Note: "checkGRPCStatus on grpc-status 1..16 and grpc-message = PercentEncodeMessage(m) / m itself, for every byte string m of length <=3"},
				{Pkg: pkgRefClient, Func: "H13b_q", Unwind: 20, Note: "isValidHTTPFieldName / isValidHTTPFieldValue on every byte string of length <=2"},
				{Pkg: pkgRefClient, Func: "H13c_q", Unwind: 24, Split: []SplitDim{{"rawlen", 0, 5}, {"lf#0", 0, 1}, {"lf#1", 0, 1}, {"lf#2", 0, 1}, {"lf#3", 0, 1}, {"lf#4", 0, 1}}, CaseNote: "case split: length and the set of LF positions (line structure); all other bytes symbolic over {a, A, colon, space, CR}", Note: "examineGRPCEndStream crash freedom on strings <=5 bytes over {a, A, colon, space, CR, LF}"},
				{Pkg: pkgRefClient, Func: "H13d_q", Unwind: 24, JobSecs: 1500, ExecSecs: 1200, FeasSecs: 600, Note: "examineGRPCEndStream: one well-formed line (key a / b-c, value <=2 bytes over {x,y,space}) and its malformations (LF only, no final CRLF, upper-case key, missing colon, extra blank line)"},
			},
			Stubs: []string{"strings.Split/SplitN/Trim/ToLower, textproto.CanonicalMIMEHeaderKey (ASCII), url.PathUnescape are bounded Go models", "printer = counting stub"},
			Out:   []string{"Connect JSON examiners (encoding/json)", "grpc-status-details-bin (base64 + protobuf)", "the reference server's own rendering of trailers"},
		},
		{
			ID: "C18",
			Quick: []HarnessSpec{
				{Pkg: pkgGrpcutil, Func: "H18a_q", Unwind: 16, UTF8Range: true, Note: "PercentEncodeMessage on every byte string of length <=3 (all 256 byte values); a `range` over the message is decoded as UTF-8 (validated by H18r)"},
				{Pkg: pkgGrpcutil, Func: "H18b_q", Unwind: 12, Note: "header list -> gRPC metadata -> header list: one header, key from {x-a, X-A-Bin, x-b-bin, X-C}, 1..2 values (ASCII or with a 0xff byte)"},
				{Pkg: pkgGrpcutil, Func: "H18r_q", Unwind: 16, UTF8Range: true, Note: "translator validation: the engine's range-over-string (UTF-8 decoding at symbolic offsets, used by H18a) against a reference decoder in Go executed from its SSA, every string of <=3 bytes; natively the reference is compared with unicode/utf8 on all 16.8 million strings of <=3 bytes"},
				{Pkg: pkgGrpcutil, Func: "H18m_q", Unwind: 12, Note: "gRPC metadata with three keys (x-a-bin, x-b-bin, x-c), 1..2 values each (ASCII or with a 0xff byte) -> header list: every key keeps its own values"},
				{Pkg: pkgGrpcutil, Func: "H18f_q", Unwind: 12, Note: "ConvertProtoHeaderToMetadata on two header entries with names from {x-a, X-A, x-b-bin, X-B-Bin} (same name twice, names differing in case, binary keys): every value reaches the metadata, in order, decoded exactly once"},
				{Pkg: pkgGrpcutil, Func: "H18g_q", Unwind: 12, Note: "the same through the client side: AppendToOutgoingContext, then grpc-go's metadata.FromOutgoingContext (executed from its SSA)"},
				{Pkg: pkgInternal, Func: "H18c_q", Unwind: 60, Note: "ConvertProtoToConnectError then ConvertConnectToProtoError (real connect-go Error/ErrorDetail code): codes 1..16, empty / non-empty message, 0..2 details of two types with 0..2 value bytes"},
				{Pkg: pkgInternal, Func: "H18e_q", Unwind: 12, Note: "StrictProtoCodec / StrictJSONCodec: Marshal, MarshalAppend, MarshalStable followed by Unmarshal on an arbitrary message; any 1..3 unknown-field bytes are rejected"},
			},
			Thorough: []HarnessSpec{
				{Pkg: pkgGrpcutil, Func: "H18b_q", Unwind: 12, Note: "as quick"},
			},
			Stubs: []string{"strings.Builder modelled on its buffer", "connect.EncodeBinaryHeader/DecodeBinaryHeader are an inverse-pair contract stub in the engine (real base64 natively)", "proto / protojson (un)marshalling are format-tagged inverse-pair contract stubs ('P' / 'J'); natively the real libraries run on a real message"},
			Out:   []string{"the libraries' own losslessness (protobuf, protojson, base64, connect.Error, grpc status)"},
		},
		{
			ID: "C17",
			Quick: []HarnessSpec{
				{Pkg: pkgRefServer, Func: "H17u_q", Unwind: 10, Note: "rawResponseRecorder.WrapUnary on a real connect.Request carrying a UnaryRequest or an IdempotentUnaryRequest, with or without a raw_response in its definition"},
				{Pkg: pkgRefServer, Func: "H17c_q", Unwind: 10, Note: "rawResponseWriter: every sequence of <=4 operations from {Write, WriteHeader, Flush, setRawResponse}"},
				{Pkg: pkgRefServer, Func: "H17d_q", Unwind: 10, Note: "rawResponseWriter.finish: status unset/201/503, 2 raw header values, 1 trailer, unary identity body of <=2 symbolic bytes, a handler-set header, a handler change (append / replace / none) to a middleware-set header and a handler write, none of which may survive"},
				{Pkg: pkgInternal, Func: "H17a_q", Unwind: 12, UnwindFor: map[string]int{"h17a": 44}, Note: "WriteRawStreamContents/WriteRawMessageContents, identity compression: <=2 items, flags 0..300, explicit length any uint32 or computed, payload <=2 symbolic bytes or absent; destination is a recording WriteCloser"},
				{Pkg: pkgInternal, Func: "H17t_q", Unwind: 12, Note: "AddHeaders / AddTrailers with 1..3 entries naming x-foo or X-Foo: one key, all values in the given order"},
				{Pkg: pkgInternal, Func: "H17e_q", Unwind: 12, Only: []string{"connectrpc.com/conformance/internal/compression.GetCompressor=vModelGetCompressor"}, UnwindFor: map[string]int{"H17e_q": 44}, Note: "WriteRawMessageContents with per-item compression: compression 0..7 (unspecified, identity, 5 algorithms, unknown), data absent / binary / binary message / text, payload of 0..2 symbolic bytes; compressors are a framing model symbolically (header byte, payload, trailer byte on Close) and the real ones natively"},
			},
			Stubs: []string{"destination writer = recording stub with a Close method", "bytes.Buffer modelled on its fields"},
			Out:   []string{"non-identity compressions (third-party code; C20)", "rawRequestSender.RoundTrip (net/http, io.Pipe, goroutines), real sockets"},
		},
		{
			ID: "C12",
			Quick: []HarnessSpec{
				{Pkg: pkgRefServer, Func: "H12a_q", Unwind: 40, TimeoutMs: 60000, Solvers: []string{"z3-new", "cvc5-int"}, Split: []SplitDim{{"grpc", 0, 1}, {"nd", 1, 11}, {"unit", 0, 6}, {"lz", 0, 1}, {"lead", 0, 2}}, CaseNote: "case split: protocol, number of digits (1..11 / 1..9), redundant leading zero or not, sign (none, +, -), and unit letter (H M S m u n, or an invalid letter); every other digit is symbolic", Note: "extractTimeout on Connect-Timeout-Ms / Grpc-Timeout values"},
				{Pkg: pkgRefServer, Func: "H12c_q", Unwind: 40, Note: "referenceServerChecks middleware: request with / without test name, with / without Connect-Timeout-Ms (250 or 0), with / without request trailers, followed or not by a repeated request of the same test and a first request of another test"},
				{Pkg: pkgRefServer, Func: "H12b_q", Unwind: 40, Note: "checkHTTPVersion/Protocol/Codec/Compression/TLS on the request of a conformant client: full matrix expected x actual of 3 HTTP versions, GET/POST, 3 protocols (unary/stream content types, bare or +codec), 2 codecs, 6 compressions (identity explicit or omitted), TLS on/off, client certificate none/a/b"},
			},
			Stubs: []string{"int64(Duration.Hours/Minutes/Seconds()) summarised as q-1..q+1 (q exact when the remainder is 0), justified by the floating-point lemma of DESIGN.md section 4", "http.Header / url.Values accessed with canonical keys (map models)", "enum descriptors reduced to 'number is a declared value'", "printer = recording stub"},
			Out:   []string{"net/http request parsing", "connect.ErrorWriter (the rejection response itself)"},
		},
		{
			ID: "C19",
			Quick: []HarnessSpec{
				{Pkg: pkgCC, Func: "H19a_q", Unwind: 6, AbstractBig: true, Solvers: []string{"z3-new"}, TimeoutMs: 300000, Note: "expandRequestData on one request: size of the other fields 0..40, initial padding length any value < 2^22, offset any int32, padding field present or not"},
			},
			Stubs: []string{"protobuf reflection, proto.Size and Any (un)marshalling replaced by the wire-size model size(n) = other + (n=0 ? 0 : 1 + varint(n) + n)", "padding bytes are length-abstracted (contents not tracked)", "natively the real reflection/wire code runs on a real UnaryRequest with the same padding length and offset"},
			Out:   []string{"sharpness of the receive limit inside connect-go / grpc-go (second sentence of the property)"},
		},
		{
			ID: "C02",
			Quick: []HarnessSpec{
				{Pkg: pkgCC, Func: "H02a_q", Unwind: 8, Note: "populateExpectedResponse: response definition carried by request message 0, 1 or 2 (only the first one counts, as in the reference servers); stream type 0..6 (incl. unspecified/out of range), 0..3 request messages of one of 4 types or undecodable, response definition present or not, 0..3 response_data items, error present or not, unary response nothing/data/error, expected response preset or not"},
				{Pkg: pkgCC, Func: "H02n_q", Unwind: 8, UnwindFor: map[string]int{"vModelPathJoin": 12, "expandCases": 40, "expandSuite": 40, "populateExpectedResponses": 40, "groupTestCases": 40}, NoDedupe: true, Note: "newTestCaseLibrary on a suite whose one test case has a request or none"},
			},
			Stubs: []string{"anypb UnmarshalNew / New are contract stubs (table lookup); natively real Any values are used"},
			Out:   []string{"agreement of the derived expectation with the reference peers (needs the whole RPC stack: same reason as C01)", "YAML/JSON parsing of suites"},
		},
		{
			ID: "C03",
			Quick: []HarnessSpec{
				{Pkg: pkgCC, Func: "H03a_q", Unwind: 12, Note: "canonicalizeHeaderVals laws on strings <=3 bytes over {a, comma, space}"},
				{Pkg: pkgCC, Func: "H03b_q", Unwind: 12, Note: "checkHeaders: <=2 expected and <=2 actual headers, names from {x-a, X-A, x-b, X-B}, <=2 values each from {v, w, \"v, w\", \"v,w\"}"},
				{Pkg: pkgCC, Func: "H03c_q", Unwind: 12, Note: "checkError: presence, codes 1..3, one optional other allowed code, message specified or not, <=2 details per side (RequestInfo or other type, 2 contents each)"},
				{Pkg: pkgCC, Func: "H03e_q", Unwind: 12, Split: []SplitDim{{"stream", 1, 5}, {"hasPayload", 0, 1}, {"hasErr", 0, 1}, {"eh.n", 0, 1}, {"et.n", 0, 1}, {"ah.n", 0, 1}, {"at.n", 0, 1}}, CaseNote: "case split: stream type, payload/error presence and the number of headers on each of the four sides are enumerated; names, values and HTTP status stay symbolic", Note: "assert(): <=1 expected header, <=1 expected trailer, <=1 actual header, <=1 actual trailer (names x-a/X-A/x-b/X-B, <=2 values), every stream type, with/without payload and error, HTTP status absent/200/404 on each side"},
				{Pkg: pkgCC, Func: "H03f_q", Unwind: 12, Note: "checkPayloads: <=2 payloads per side, 1 data byte each, 0..2 echoed requests per payload from 2 distinct messages"},
				{Pkg: pkgCC, Func: "H03d_q", Unwind: 8, Note: "checkRequestInfo: echoed timeout for all int64 actual values and all non-negative int64 expected values, presence of either side"},
			},
			Stubs: []string{"strings.Split/ToLower, reflect.DeepEqual([]string) are bounded Go models", "anypb.Any MessageIs/UnmarshalTo and cmp.Diff(protocmp) are contract stubs (equal iff type URL and bytes equal)", "error texts (fmt.Errorf arguments, Code.String) are not the subject"},
			Out:   []string{"text of the discrepancy message", "protocmp semantics", "more than one header per side in the merged-metadata leniency"},
		},
		{
			ID: "C10",
			Quick: []HarnessSpec{
				{Pkg: pkgCC, Func: "H10a_q", Unwind: 8, Note: "runClient with a fake process: done-callback with exit status 0 or non-zero while the output reader is parked in a read"},
				{Pkg: pkgCC, Func: "H10b_q", Unwind: 8, Note: "<=2 sendRequest (names from {a,b}, duplicates possible; each write ok / closed pipe / other error) issued before, during (at every read) or after consumeOutput; client output = <=2 responses with names from {a,b,unknown} then clean EOF or an error"},
			},
			Thorough: []HarnessSpec{
			},
			Stubs: []string{"internal.ReadDelimitedMessage / WriteDelimitedMessage replaced by stubs (their own behaviour is C09): the read stub yields a symbolic response name or the terminal error and is a scheduling point at which pending sends run", "process = fake controller", "goroutines run at spawn; mutexes sequential; time.After fires only when nothing else is ready"},
			Out:   []string{"true concurrency of senders and reader inside one atomic step", "real pipes and OS processes"},
		},
		{
			ID: "C04",
			Quick: []HarnessSpec{
				{Pkg: pkgCC, Func: "H04r_q", Unwind: 40, Only: []string{ccp + "run=vModelRunStub", ccp + "parseConfig=vModelParseConfigStub", ccp + "parseTestSuites=vModelParseTestSuites", "connectrpc.com/conformance/internal/app/connectconformance/testsuites.LoadTestSuitesFromFiles=vModelLoadSuitesFromFiles"}, Note: "Run(): run() returns one case that could not be set up, with or without an error of its own (symbolic): verdict false, report printed once with the failing case named, the run's error printed iff there is one; natively the real Run() with a server command that does not exist and a client that exits with status 0 or 3"},
				{Pkg: pkgCC, Func: "H04a_q", Unwind: 16, Note: "report(): <=2 named cases, each present or not, outcome in {pass, failure, could-not-run}, setup-error / known-failing / known-flaky flags, peer feedback present or not, 0..2 selected cases without any outcome"},
			},
			Thorough: []HarnessSpec{
			},
			Stubs: []string{"printer = recording stub (FAILED/INFO names, totals)", "indent() is the identity (message layout is not the subject)", "sync.Mutex/WaitGroup sequential"},
			Out:   []string{"H04r: config parsing, suite loading and run() are stubs in the engine (real natively); Run()'s early-exit paths and a passing run through real peers are outside", "HTTP trace printing"},
		},
		{
			ID: "C06",
			Quick: []HarnessSpec{
				{Pkg: pkgCC, Func: "H06a_q", Unwind: 8, TimeoutMs: 400000, Solvers: []string{"z3-new"}, JobSecs: 900, Note: "features: each of the 5 axis lists of symbolic length <=2 with arbitrary (repeated, unordered) valid enum elements, 7 tri-state flags; arbitrary probe case (all 10 fields symbolic, including out-of-range values)"},
				{Pkg: pkgCC, Func: "H06r2_q", Unwind: 8, TimeoutMs: 600000, Solvers: []string{"z3-new"}, JobSecs: 1200, Note: "two include/exclude entries (every field independently set or omitted) resolved in sequence against symbolic features (axis lists of length <=1, 7 tri-state flags); arbitrary probe case"},
				{Pkg: pkgCC, Func: "H06p_q", Unwind: 8, UnwindFor: map[string]int{"parseConfig": 60, "h06p": 60}, NoDedupe: true, TimeoutMs: 400000, FeasSecs: 3, Solvers: []string{"z3-new"}, JobSecs: 1500, Split: []SplitDim{{"ninc", 0, 1}, {"nexc", 0, 1}, {"tls", 0, 2}}, CaseNote: "case split: number of include / exclude entries (0..1 each) and the supports_tls tri-state; everything else symbolic", Note: "parseConfig set algebra: features with exactly one (arbitrary) entry per axis list and 7 tri-state flags (supports_tls_client_certs unset or false), <=1 include and <=1 exclude entry (every field independently set or omitted), arbitrary probe case: result == (features + include) - exclude, contradictory or empty configurations rejected"},
			},
			Thorough: []HarnessSpec{
			},
			Stubs: []string{"protoyaml Unmarshal replaced by a stub that installs the symbolic Config (natively: the Config is marshalled to JSON and really parsed)", "os.Stderr deprecation warning is a no-op"},
			Out:   []string{"YAML syntax", "literal error texts", "parseConfig's include/exclude loops with multi-valued axis lists (the map logs make the query intractable; resolveCase is checked directly instead)"},
		},
		{
			ID: "C14",
			Quick: []HarnessSpec{
				{Pkg: pkgTracer, Func: "H14a_resp_q", Unwind: 40, CaseGen: c14Cases(2, 2, 2), CaseNote: c14Note(2, 2, 2), Note: "response body: <=2 enveloped messages (any flags byte, any payload bytes), terminal condition EOF / read error (also mid-data) / Close (ok or failing) symbolic; no decompressor"},
				{Pkg: pkgTracer, Func: "H14a_respz_q", Unwind: 40, CaseGen: c14Cases(2, 2, 2), CaseNote: c14Note(2, 2, 2), Note: "same with a (stub) decompressor negotiated"},
				{Pkg: pkgTracer, Func: "H14a_req_q", Unwind: 40, CaseGen: c14Cases(2, 2, 2), CaseNote: c14Note(2, 2, 2), Note: "request body, same bounds"},
				{Pkg: pkgTracer, Func: "H14a_resp3_q", Unwind: 40, CaseGen: c14Cases(1, 3, 3), CaseNote: c14Note(1, 3, 3), Note: "response body: one enveloped message of length 0..3 delivered in 3 reads (payload still incomplete after two of them), same symbolic terminal conditions"},
				{Pkg: pkgTracer, Func: "H14w_q", Unwind: 40, CaseGen: c14wCases(2, 2, 2), CaseNote: "case split: message lengths, number of bytes accepted in total, their partition into 2 writes, and 0..2 extra bytes of the last write that the underlying writer refuses (short write); flags, payloads and the error of a complete last write symbolic", Note: "tracingResponseWriter.Write: response written by the handler in 2 writes, the last one possibly short / failing"},
				{Pkg: pkgTracer, Func: "H14u_q", Unwind: 12, Split: []SplitDim{{"limit", 0, 7}, {"cut", 0, 7}}, CaseNote: "case split: bytes seen and where they are cut into two pieces; flags, payload and side symbolic", Note: "dataTracer.emitUnfinished twice (as the HTTP/2 connection tracer does at request end and at stream close) after 0..7 bytes of one 2-byte message traced in two pieces (every cut), request or response side, then one more message: one partial event at most, none the second time, the next message cut afresh"},
			},
			Thorough: []HarnessSpec{
				{Pkg: pkgTracer, Func: "H14a_resp_t", Unwind: 60, QuickSolve: true, CaseGen: c14Cases(2, 2, 3), CaseNote: c14Note(2, 2, 3), Note: "response body: <=2 enveloped messages delivered in 3 reads, symbolic flags/payload/terminal condition; no decompressor"},
			},
			Stubs: []string{"wrapped body = script reader with symbolic chunk sizes and terminal condition", "decompressor = contract stub (output = input xor 0x55)", "bytes.Buffer modelled on its fields (Write/String/Read/Len), Buffer.ReadFrom = loop of Read+Write", "time.Since nondeterministic", "collector records the completed trace"},
			Out:   []string{"real decompressors (C20)", "HTTP plumbing around the reader (RoundTripper/Handler)"},
		},
		{
			ID: "C09",
			Quick: []HarnessSpec{
				{Pkg: pkgInternal, Func: "H09a_q", Unwind: 6, Note: "read(k): k<=4 bytes, <=3 Read calls each returning symbolic (n<=len(p), err in {nil,EOF,other})"},
				{Pkg: pkgInternal, Func: "H09b_q", Unwind: 6, Note: "readDelimitedMessageRaw: symbolic 4-byte prefix + body <=2 bytes, max size 0..2, <=4 Read calls"},
				{Pkg: pkgInternal, Func: "H09d_q", Unwind: 6, Note: "as H09b plus a reader that may block forever at any call (stall); timer branch"},
				{Pkg: pkgInternal, Func: "H09p_q", Unwind: 6, FeasQueryMs: 8000, FeasSecs: 200, JobSecs: 900, UnwindFor: map[string]int{"h09p": 20}, Only: []string{"(google.golang.org/protobuf/proto.MarshalOptions).Marshal=vModelMarshalBytesValue", "(google.golang.org/protobuf/proto.UnmarshalOptions).Unmarshal=vModelUnmarshalBytesValue"}, Note: "peer-side binary codec: protoEncoder.Encode then protoDecoder.DecodeNext for 0..1 messages of 0..2 symbolic bytes, the stream cut after any number of bytes, delivered in chunks of 1..4 bytes chosen per read, EOF with or after the last bytes"},
				{Pkg: pkgInternal, Func: "H09p2_q", Unwind: 6, FeasQueryMs: 8000, FeasSecs: 200, JobSecs: 900, UnwindFor: map[string]int{"h09p": 20}, Only: []string{"(google.golang.org/protobuf/proto.MarshalOptions).Marshal=vModelMarshalBytesValue", "(google.golang.org/protobuf/proto.UnmarshalOptions).Unmarshal=vModelUnmarshalBytesValue"}, Split: []SplitDim{{"nmsg", 0, 2}, {"len0", 0, 2}, {"len1", 0, 2}}, CaseNote: "case split: number of messages and their lengths (the layout of the stream); cut point and payload bytes symbolic", Note: "peer-side binary codec: two messages in order, the stream cut after any number of bytes, reads that fill their buffer"},
			},
			Stubs: []string{"io.Reader = script reader with symbolic (n, err) per call, assumed to end/fail/complete within the stated number of calls", "goroutine in readDelimitedMessageRaw runs to completion (or until it blocks) at the spawn point; time.After is ready nondeterministically and fires when nothing else is ready"},
			Out:   []string{"JSON wire variant (encoding/json)", "real timers", "proto.Marshal/Unmarshal"},
		},
		{
			ID: "C08",
			Quick: []HarnessSpec{
				{Pkg: pkgCC, Func: "H08a_q", Unwind: 6, Recur: 8, Note: "<=2 patterns x <=3 components over {a,b,*,**}; name <=3 components over {a,b}"},
				{Pkg: pkgCC, Func: "H08b_q", Unwind: 10, Recur: 10, Note: "addPattern/matchPattern on strings <=4 bytes over {a,*,/} (pattern) and {a,/} (name), including empty components"},
				{Pkg: pkgCC, Func: "H08c_q", Unwind: 8, Recur: 8, Note: "allUnmatched after matching <=2 names (<=2 components) against <=2 patterns (<=2 components)"},
				{Pkg: pkgMain, Func: "H08f_q", Unwind: 12, FeasSecs: 200, UnwindFor: map[string]int{"vModelContains": 40}, Note: "parsePatternFile on any content <=4 bytes over {a,#,newline,space}"},
				{Pkg: pkgMain, Func: "H08e_q", Unwind: 12, UnwindFor: map[string]int{"vModelContains": 40}, Split: []SplitDim{{"nargs", 0, 3}, {"kind#0", 0, 3}, {"kind#1", 0, 3}, {"kind#2", 0, 3}}, CaseNote: "case split: number of args and kind of each arg (2 literals, 2 @files) enumerated; file contents and readability symbolic", Note: "argsToPatterns on <=3 args, each a literal or one of two @files (content <=3 bytes over {a,b,newline}, readable or not)"},
			},
			Thorough: []HarnessSpec{
			},
			Stubs: []string{"component strings drawn from a finite alphabet of constant strings"},
			Out:   []string{"known-failing/known-flaky conflict rejection inside run()"},
		},
	}
}


func c14Note(M, L, R int) string {
	return fmt.Sprintf("case split (enumerated completely): declared length of each of %d messages in 0..%d, cut point (limit) at every byte of the stream, every partition of the delivered bytes into %d Read calls (sizes >= 0), and per read the terminal behaviour (nothing / EOF / error at the end of the data, error in the middle); inside each case the flags bytes, payload bytes and the outcome of Close are symbolic", M, L, R)
}

// c14Cases enumerates layouts (message lengths), cut points and chunkings for the body-tracing harness.
func c14Cases(M, L, R int) func() []map[string]int64 {
	return func() []map[string]int64 {
		var out []map[string]int64
		lens := make([]int, M)
		var recLens func(k int)
		recLens = func(k int) {
			if k == M {
				total := 0
				for _, l := range lens {
					total += 5 + l
				}
				for limit := 0; limit <= total; limit++ {
					parts := make([]int, R)
					var recParts func(i, left int)
					recParts = func(i, left int) {
						if i == R-1 {
							parts[i] = left
							// terminal behaviour per read: after read i the body is either at its end (then it reports
							// nothing / EOF / error: re#i in 0..2) or not (then it may fail mid-data: rfail#i in 0..1)
							type opt struct {
								k string
								n int
							}
							var opts []opt
							pos := 0
							for j, p := range parts {
								pos += p
								if pos == limit {
									opts = append(opts, opt{fmt.Sprintf("re#%d", j), 3})
								} else {
									opts = append(opts, opt{fmt.Sprintf("rfail#%d", j), 2})
								}
							}
							var recOpt func(j int, cur map[string]int64)
							recOpt = func(j int, cur map[string]int64) {
								if j == len(opts) {
									c := map[string]int64{"limit": int64(limit)}
									for q, l := range lens {
										c[fmt.Sprintf("len#%d", q)] = int64(l)
									}
									for q, p := range parts {
										c[fmt.Sprintf("rn#%d", q)] = int64(p)
										c[fmt.Sprintf("re#%d", q)] = 0
										c[fmt.Sprintf("rfail#%d", q)] = 0
									}
									for k, v := range cur {
										c[k] = v
									}
									out = append(out, c)
									return
								}
								for v := 0; v < opts[j].n; v++ {
									cur[opts[j].k] = int64(v)
									recOpt(j+1, cur)
									if v > 0 {
										// the application stops reading at the first error/EOF: later reads are irrelevant
									}
								}
								delete(cur, opts[j].k)
							}
							recOpt(0, map[string]int64{})
							return
						}
						for v := 0; v <= left; v++ {
							parts[i] = v
							recParts(i+1, left-v)
						}
					}
					recParts(0, limit)
				}
				return
			}
			for v := 0; v <= L; v++ {
				lens[k] = v
				recLens(k + 1)
			}
		}
		recLens(0)
		return out
	}
}


// c15Cases: payload lengths of the two frames and every partition of the stream into R chunks.
func c15Cases(R int) func() []map[string]int64 {
	return func() []map[string]int64 {
		var out []map[string]int64
		for l0 := 0; l0 <= 3; l0++ {
			for l1 := 0; l1 <= 3; l1++ {
				total := 18 + l0 + l1
				parts := make([]int, R)
				var rec func(i, left int)
				rec = func(i, left int) {
					if i == R-1 {
						parts[i] = left
						c := map[string]int64{"len#0": int64(l0), "len#1": int64(l1)}
						for q, p := range parts {
							c[fmt.Sprintf("chunk#%d", q)] = int64(p)
						}
						out = append(out, c)
						return
					}
					for v := 0; v <= left; v++ {
						parts[i] = v
						rec(i+1, left-v)
					}
				}
				rec(0, total)
			}
		}
		return out
	}
}


func c14wCases(M, L, R int) func() []map[string]int64 {
	base := c14Cases(M, L, R)
	return func() []map[string]int64 {
		var out []map[string]int64
		seen := map[string]bool{}
		for _, c := range base() {
			// terminal-behaviour dimensions of the reader harness are irrelevant here: keep one representative
			k := fmt.Sprint(c["limit"], c["len#0"], c["len#1"], c["len#2"], c["rn#0"], c["rn#1"], c["rn#2"])
			if seen[k] {
				continue
			}
			seen[k] = true
			for extra := 0; extra <= 2; extra++ {
				n := map[string]int64{"extra": int64(extra), "limit": c["limit"]}
				for key, v := range c {
					if strings.HasPrefix(key, "len#") || strings.HasPrefix(key, "rn#") {
						n[key] = v
					}
				}
				out = append(out, n)
			}
		}
		return out
	}
}
