//go:build verif

package internal

import (
	"errors"
	"io"

	"google.golang.org/protobuf/proto"
	"google.golang.org/protobuf/types/known/wrapperspb"
)

// C09, peer-side stream codec (protoEncoder / protoDecoder): what the encoder wrote is read back as the same
// sequence however the bytes are chunked, and a stream that ends early is an unexpected end unless it ends
// exactly between two messages.
//
// Protobuf (un)marshalling is a contract stub for H09p only (registry: Only): the wire form of a BytesValue is
// its Value. Natively the real protobuf encoding is used (two more bytes per non-empty message).

func vModelMarshalBytesValue(o proto.MarshalOptions, m proto.Message) ([]byte, error) {
	return m.(*wrapperspb.BytesValue).Value, nil
}

func vModelUnmarshalBytesValue(o proto.UnmarshalOptions, b []byte, m proto.Message) error {
	v := make([]byte, len(b))
	copy(v, b)
	m.(*wrapperspb.BytesValue).Value = v
	return nil
}

type vRecBuf struct {
	b [16]byte
	n int
}

func (w *vRecBuf) Write(p []byte) (int, error) {
	for j := 0; j < len(p); j++ {
		if w.n < len(w.b) {
			w.b[w.n] = p[j]
		}
		w.n++
	}
	return len(p), nil
}

// vChunkReader delivers the first `limit` bytes of the stream in chunks of 1..4 bytes chosen by the environment,
// then reports io.EOF - together with the last bytes or on its own.
type vChunkReader struct {
	stream []byte
	limit  int
	pos    int
	calls  int
	ended  bool
	whole  bool // every read fills the buffer it is given (as far as the stream goes)
}

const vMaxChunkReads = 10

func (r *vChunkReader) Read(p []byte) (int, error) {
	i := r.calls
	vAssume(i < vMaxChunkReads)
	r.calls++
	if r.ended || r.pos >= r.limit {
		r.ended = true
		return 0, io.EOF
	}
	n := 4
	if !r.whole {
		n = vIntAt("chunk", i, vMaxChunkReads, 1, 4)
	}
	if n > len(p) {
		n = len(p)
	}
	if n > r.limit-r.pos {
		n = r.limit - r.pos
	}
	for j := 0; j < n; j++ {
		p[j] = r.stream[r.pos+j]
	}
	r.pos += n
	if r.pos >= r.limit && vBoolAt("eofWithData", i, vMaxChunkReads) {
		r.ended = true
		return n, io.EOF
	}
	return n, nil
}

func h09p(L, N int, whole bool) {
	nmsg := vInt("nmsg", 0, N)
	var plen [2]int
	var payload [2][2]byte
	plen[0] = vInt("len0", 0, L)
	plen[1] = vInt("len1", 0, L)
	out := &vRecBuf{}
	enc := (&protoCodec{}).NewEncoder(out)
	var end [3]int // end[i]: stream offset after message i-1
	for i := 0; i < nmsg; i++ {
		data := make([]byte, plen[i])
		for j := 0; j < plen[i]; j++ {
			payload[i][j] = vByteAt("payload", i*2+j, 4)
			data[j] = payload[i][j]
		}
		err := enc.Encode(&wrapperspb.BytesValue{Value: data})
		vAssert(err == nil, "encoding to a working writer succeeds")
		end[i+1] = out.n
	}
	total := out.n
	vAssert(total <= len(out.b), "harness buffer large enough")
	limit := vInt("limit", 0, 16) // the peer's output ends after this many bytes
	vAssume(limit <= total)
	stream := make([]byte, total)
	for k := 0; k < total && k < len(out.b); k++ {
		stream[k] = out.b[k]
	}
	rd := &vChunkReader{stream: stream, limit: limit, whole: whole}
	dec := (&protoCodec{}).NewDecoder(rd)
	for i := 0; i <= 2; i++ {
		if i > nmsg {
			break
		}
		msg := &wrapperspb.BytesValue{}
		err := dec.DecodeNext(msg)
		switch {
		case i < nmsg && limit >= end[i+1]:
			vAssert(err == nil, "a message that was delivered completely is decoded, however it was chunked")
			same := len(msg.Value) == plen[i]
			for j := 0; j < 2; j++ {
				if j < plen[i] && j < len(msg.Value) && msg.Value[j] != payload[i][j] {
					same = false
				}
			}
			vAssert(same, "the decoded message is the one that was written, in order")
		case limit == end[i]:
			vAssert(err == io.EOF, "a stream that ends between two messages is reported as a clean end of input")
			return
		default:
			vAssert(err != nil && !errors.Is(err, io.EOF) && errors.Is(err, io.ErrUnexpectedEOF), "a stream that ends inside a length prefix or a message is an unexpected end, never a clean end or a shorter message")
			return
		}
	}
}

// one message under every chunking; two messages (order, boundaries) with reads that fill their buffer
func H09p_q()  { h09p(2, 1, false) }
func H09p2_q() { h09p(2, 2, true) }
