//go:build verif

package grpcutil

import (
	"unicode/utf8"
	"context"

	conformancev1 "connectrpc.com/conformance/internal/gen/proto/go/connectrpc/conformance/v1"
	"connectrpc.com/connect"
	"google.golang.org/grpc/metadata"
)

// C18: percent-encoding of status messages is invertible and yields only printable ASCII; metadata conversions
// preserve keys (up to case) and values in order, with -bin values base64-coded exactly once.

func vHexVal(c byte) int {
	switch {
	case c >= '0' && c <= '9':
		return int(c - '0')
	case c >= 'A' && c <= 'F':
		return int(c-'A') + 10
	}
	return -1
}

// H18a: for every message: encoded form is printable ASCII, its length is len + 2*escaped, and the reference
// percent-decoder (upper-case hex, as the gRPC spec prescribes) returns the message.
func h18a(S int) {
	msg := vString("msg", S)
	enc := PercentEncodeMessage(msg)
	printable := true
	for i := 0; i < len(enc); i++ {
		if enc[i] < 0x20 || enc[i] > 0x7e {
			printable = false
		}
	}
	vAssert(printable, "the encoded message contains only printable ASCII")
	// decode
	out := make([]byte, 0, 8)
	ok := true
	for i := 0; i < len(enc); {
		if enc[i] == '%' {
			if i+2 >= len(enc)+0 && i+2 > len(enc)-1 {
				ok = false
				break
			}
			hi, lo := vHexVal(enc[i+1]), vHexVal(enc[i+2])
			if hi < 0 || lo < 0 {
				ok = false
				break
			}
			out = append(out, byte(hi<<4|lo))
			i += 3
		} else {
			out = append(out, enc[i])
			i++
		}
	}
	vAssert(ok, "every escape is a percent sign followed by two upper-case hex digits")
	vAssert(ok && string(out) == msg, "percent-decoding the encoded message returns the original bytes")
}

func H18a_q() { h18a(3) }
func H18a_t() { h18a(4) }

// ---- base64 of binary headers: inverse-pair contract stub in the engine, the real functions natively ----

//verif:replace connectrpc.com/connect.EncodeBinaryHeader vModelEncodeBin
func vModelEncodeBin(data []byte) string { return "b64:" + string(data) }

//verif:replace connectrpc.com/connect.DecodeBinaryHeader vModelDecodeBin
func vModelDecodeBin(s string) ([]byte, error) {
	if len(s) >= 4 && s[:4] == "b64:" {
		return []byte(s[4:]), nil
	}
	return nil, errVerifNotB64
}

var errVerifNotB64 = vErr("verif: not base64")

type vErr string

func (e vErr) Error() string { return string(e) }

func vKey(k int) string {
	switch k {
	case 0:
		return "x-a"
	case 1:
		return "X-A-Bin"
	case 2:
		return "x-b-bin"
	default:
		return "X-C"
	}
}

func vLowerKey(k int) string {
	switch k {
	case 0:
		return "x-a"
	case 1:
		return "x-a-bin"
	case 2:
		return "x-b-bin"
	default:
		return "x-c"
	}
}

func vRaw(k int) string {
	if k == 0 {
		return "v"
	}
	return "w\xff"
}

// H18b: proto headers -> gRPC metadata -> proto headers.
func h18b() {
	k := vInt("key", 0, 3)
	isBin := k == 1 || k == 2
	nv := vInt("nvals", 1, 2)
	var raws [2]string
	vals := make([]string, 0, 2)
	for i := 0; i < nv; i++ {
		raws[i] = vRaw(vIntAt("val", i, 2, 0, 1))
		if isBin {
			vals = append(vals, connect.EncodeBinaryHeader([]byte(raws[i]))) // -bin values are base64 in the proto form
		} else {
			vals = append(vals, raws[i])
		}
	}
	in := []*conformancev1.Header{{Name: vKey(k), Value: vals}}
	md := ConvertProtoHeaderToMetadata(in)
	got, present := md[vLowerKey(k)]
	vAssert(present && len(md) == 1, "the key is preserved up to letter case")
	vAssert(len(got) == nv, "every value is preserved")
	for i := 0; i < 2; i++ {
		if i < nv && i < len(got) {
			vAssert(got[i] == raws[i], "gRPC metadata carries raw (decoded) values, in order")
		}
	}
	// and back
	src := metadata.MD{vLowerKey(k): append([]string(nil), got...)}
	back := ConvertMetadataToProtoHeader(src)
	vAssert(len(back) == 1 && back[0].Name == vLowerKey(k) && len(back[0].Value) == nv, "converting back preserves key and value count")
	// the conversion reads its argument: converting the same metadata again gives the same result
	again := ConvertMetadataToProtoHeader(src)
	for i := 0; i < 2; i++ {
		if i < nv && len(again) == 1 && i < len(again[0].Value) && len(back) == 1 && i < len(back[0].Value) {
			vAssert(src[vLowerKey(k)][i] == got[i], "converting metadata leaves the metadata as it was")
			vAssert(again[0].Value[i] == vals[i], "-bin values are base64-encoded exactly once, also when the same metadata is converted a second time")
		}
	}
	for i := 0; i < 2; i++ {
		if i < nv && len(back) == 1 && i < len(back[0].Value) {
			vAssert(back[0].Value[i] == vals[i], "-bin values are base64-encoded exactly once on the way back; other values are unchanged")
		}
	}
}

func H18b_q() { h18b() }

// H18m: metadata with several keys (two of them binary) -> header list: every key keeps its own values.
func H18m_q() {
	keys := [3]string{"x-a-bin", "x-b-bin", "x-c"}
	src := metadata.MD{}
	var raws [3][2]string
	var nvs [3]int
	for k := 0; k < 3; k++ {
		nvs[k] = vIntAt("nvals", k, 3, 1, 2)
		vals := make([]string, 0, 2)
		for i := 0; i < nvs[k]; i++ {
			raws[k][i] = vRaw(vIntAt("val", k*2+i, 6, 0, 1))
			vals = append(vals, raws[k][i])
		}
		src[keys[k]] = vals
	}
	out := ConvertMetadataToProtoHeader(src)
	vAssert(len(out) == 3, "every key of the metadata yields one header")
	for k := 0; k < 3; k++ {
		found := 0
		for _, h := range out {
			if h.Name != keys[k] {
				continue
			}
			found++
			vAssert(len(h.Value) == nvs[k], "every value of the key is preserved")
			for i := 0; i < 2; i++ {
				if i < nvs[k] && i < len(h.Value) {
					want := raws[k][i]
					if k < 2 {
						want = connect.EncodeBinaryHeader([]byte(raws[k][i]))
					}
					vAssert(h.Value[i] == want, "each key keeps its own values in order (-bin values base64-encoded exactly once), whatever other keys the metadata holds")
				}
			}
		}
		vAssert(found == 1, "each key appears exactly once")
	}
}

// ---- H18f: header lists with repeated keys (same name twice, or names differing only in case) ----

func vKey2(k int) string {
	switch k {
	case 0:
		return "x-a"
	case 1:
		return "X-A"
	case 2:
		return "x-b-bin"
	default:
		return "X-B-Bin"
	}
}

// h18f: two header entries; both the server-side conversion (ConvertProtoHeaderToMetadata) and the client-side
// one (AppendToOutgoingContext) must hand gRPC every value, in order, raw (decoded) for -bin keys.
func h18f(viaContext bool) {
	var k, v [2]int
	var raws [2]string
	in := make([]*conformancev1.Header, 0, 2)
	for i := 0; i < 2; i++ {
		k[i] = vIntAt("key", i, 2, 0, 3)
		v[i] = vIntAt("val", i, 2, 0, 1)
		raws[i] = vRaw(v[i])
		if i == 1 && v[1] == v[0] {
			raws[i] += "2" // tell the two values apart
		}
		val := raws[i]
		if k[i] >= 2 {
			val = connect.EncodeBinaryHeader([]byte(raws[i]))
		}
		in = append(in, &conformancev1.Header{Name: vKey2(k[i]), Value: []string{val}})
	}
	var md metadata.MD
	if viaContext {
		ctx := AppendToOutgoingContext(context.Background(), in)
		md, _ = metadata.FromOutgoingContext(ctx)
	} else {
		md = ConvertProtoHeaderToMetadata(in)
	}
	sameKey := k[0]/2 == k[1]/2
	for i := 0; i < 2; i++ {
		lower := "x-a"
		if k[i] >= 2 {
			lower = "x-b-bin"
		}
		got := md[lower]
		if sameKey {
			vAssert(len(got) == 2 && got[0] == raws[0] && got[1] == raws[1], "entries with the same name (up to case) contribute all their values, in order")
		} else {
			vAssert(len(got) == 1 && got[0] == raws[i], "every key keeps its value; -bin values reach gRPC raw (decoded exactly once)")
		}
	}
}

func H18f_q() { h18f(false) }
func H18g_q() { h18f(true) }

// H18r (translator validation): the engine's built-in `range` over a string with symbolic bytes (UTF-8 decoding at
// symbolic offsets) agrees with a reference decoder written out in Go below and executed from its SSA - offsets,
// runes, number of iterations - for every string of <= 3 bytes. Natively the reference decoder is first compared
// with unicode/utf8.DecodeRuneInString on every string of <= 3 bytes, and the real `range` runs.
func vRefDecode(s string) (rune, int) {
	n := len(s)
	if n == 0 {
		return 0xFFFD, 0
	}
	b0 := s[0]
	if b0 < 0x80 {
		return rune(b0), 1
	}
	cont := func(b byte) bool { return b >= 0x80 && b <= 0xBF }
	if b0 >= 0xC2 && b0 <= 0xDF {
		if n >= 2 && cont(s[1]) {
			return rune(b0&0x1F)<<6 | rune(s[1]&0x3F), 2
		}
		return 0xFFFD, 1
	}
	if b0 >= 0xE0 && b0 <= 0xEF {
		if n >= 3 && cont(s[2]) {
			lo, hi := byte(0x80), byte(0xBF)
			if b0 == 0xE0 {
				lo = 0xA0
			} else if b0 == 0xED {
				hi = 0x9F
			}
			if s[1] >= lo && s[1] <= hi {
				return rune(b0&0x0F)<<12 | rune(s[1]&0x3F)<<6 | rune(s[2]&0x3F), 3
			}
		}
		return 0xFFFD, 1
	}
	// four-byte forms cannot be complete in a string of <= 3 bytes
	return 0xFFFD, 1
}

func H18r_q() {
	if vNative() {
		var buf [3]byte
		for n := 1; n <= 3; n++ {
			total := 1 << (8 * n)
			for v := 0; v < total; v++ {
				buf[0], buf[1], buf[2] = byte(v), byte(v>>8), byte(v>>16)
				str := string(buf[:n])
				r1, w1 := vRefDecode(str)
				r2, w2 := utf8.DecodeRuneInString(str)
				if r1 != r2 || w1 != w2 {
					panic("reference decoder disagrees with unicode/utf8")
				}
			}
		}
	}
	n := vInt("n", 0, 3)
	b := make([]byte, n)
	for i := 0; i < n; i++ {
		b[i] = vByteAt("b", i, 3)
	}
	s := string(b)
	pos, k := 0, 0
	for i, r := range s {
		vAssert(i == pos, "range yields the byte offset of each rune")
		want, w := vRefDecode(s[pos:])
		vAssert(r == want, "range yields the rune the reference decoder yields")
		pos += w
		k++
	}
	vAssert(pos == len(s) && k <= 3, "range visits the whole string")
}
