//go:build verif

package internal

import (
	"errors"
	"io"
	"time"
)

// C09: length-prefixed framing survives chunking and detects truncation.

var errVerifOther = errors.New("verif: other read error")

const vMaxReads = 4

// vScriptReader is the environment: a reader that returns, per call, a symbolic
// (n <= len(p), err in {nil, io.EOF, other}) — including (n>0, err) and (0, nil) — or blocks forever.
type vScriptReader struct {
	stream   []byte // the bytes it serves, in order
	pos      int
	calls    int
	maxReads int
	canBlock bool
	blocked  bool
	lastLen  [vMaxReads + 1]int // len(p) seen by each call (ghost)
}

func (r *vScriptReader) Read(p []byte) (int, error) {
	i := r.calls
	vAssume(i < r.maxReads) // bound: the stream ends, fails or completes within maxReads calls
	r.lastLen[i] = len(p)
	r.calls++
	// a stalling reader stalls whatever buffer it is given: io.Pipe (the in-process peers' stdout) blocks a
	// zero-length Read too, until the next write or close
	if r.canBlock && vBoolAt("rblock", i, vMaxReads) {
		r.blocked = true
		if vNative() {
			select {}
		}
		vBlock()
	}
	n := vIntAt("rn", i, vMaxReads, 0, 4)
	vAssume(n <= len(p))
	vAssume(r.pos+n <= len(r.stream))
	for j := 0; j < n; j++ {
		p[j] = r.stream[r.pos+j]
	}
	r.pos += n
	switch vIntAt("re", i, vMaxReads, 0, 2) {
	case 1:
		return n, io.EOF
	case 2:
		return n, errVerifOther
	}
	return n, nil
}

// H09a: timeoutDelimitedReader.read(k) against the reference of DESIGN.md Appendix B.
func h09a(K, R int) {
	k := vInt("k", 0, K)
	rd := &vScriptReader{stream: vBytes("stream", K), maxReads: R}
	vAssume(len(rd.stream) == K)
	r := &timeoutDelimitedReader{in: rd}
	data, err := r.read(k)

	if k == 0 {
		// nothing is wanted: complete at once, and the peer need not be asked at all (a zero-length Read may
		// block - io.Pipe's does)
		vAssert(err == nil && len(data) == 0, "read(0) is complete at once")
		return
	}
	// reference: first i with s_i == k or e_i != nil
	s := 0
	decided := false
	for i := 0; i < R && !decided; i++ {
		if i >= rd.calls {
			break
		}
		n := vIntAt("rn", i, vMaxReads, 0, 4)
		e := vIntAt("re", i, vMaxReads, 0, 2)
		s += n
		if s == k {
			decided = true
			vAssert(err == nil, "read: completes without error when k bytes have arrived")
			vAssert(len(data) == k, "read: returns exactly k bytes")
			ok := true
			for j := 0; j < k; j++ {
				if data[j] != rd.stream[j] {
					ok = false
				}
			}
			vAssert(ok, "read: returns the bytes in stream order")
			vAssert(rd.calls == i+1, "read: no further Read after completion")
		} else if e != 0 {
			decided = true
			vAssert(data == nil, "read: no data on error")
			if e == 1 {
				if s > 0 {
					vAssert(err == io.ErrUnexpectedEOF, "read: EOF after >=1 byte is unexpected EOF")
				} else {
					vAssert(err == io.EOF, "read: EOF before any byte is a clean EOF")
				}
			} else {
				vAssert(err == errVerifOther, "read: other errors pass through")
			}
			vAssert(r.bytesRead == s, "read: progress counter equals bytes received")
			vAssert(rd.calls == i+1, "read: no further Read after an error")
		}
	}
	vAssert(decided, "read: returns only when complete or failed")
}

func H09a_q() { h09a(4, 3) }
func H09a_t() { h09a(4, 4) }

// H09b: readDelimitedMessageRaw: prefix, max size, truncation, clean EOF, zero-length; goroutine run at spawn.
func h09b(B, R int, stall bool) {
	// stream = be32 prefix + body (<= B bytes) possibly truncated / oversize
	stream := vBytes("stream", 4+B)
	vAssume(len(stream) == 4+B)
	rd := &vScriptReader{stream: stream, maxReads: R, canBlock: stall}
	maxSize := vInt("max", 0, B)
	r := &timeoutDelimitedReader{in: rd, source: "peer", timeout: 50 * time.Millisecond, maxSize: maxSize}
	data, err := r.readDelimitedMessageRaw()

	// reference
	size := int(stream[0])<<24 | int(stream[1])<<16 | int(stream[2])<<8 | int(stream[3])
	// replay the script
	got := 0        // bytes delivered so far in total
	phase := 0      // 0 prefix, 1 body
	want := 4
	have := 0
	var first error // first error seen by the current unit
	done := false
	result := 0 // 1 ok, 2 eof, 3 unexpected eof, 4 other err, 5 oversize, 6 stalled
	for i := 0; i < R && !done; i++ {
		if i >= rd.calls {
			break
		}
		if stall && vBoolAt("rblock", i, vMaxReads) {
			result = 6
			done = true
			break
		}
		n := vIntAt("rn", i, vMaxReads, 0, 4)
		e := vIntAt("re", i, vMaxReads, 0, 2)
		have += n
		got += n
		if have == want {
			if phase == 0 {
				if size > maxSize {
					result, done = 5, true
				} else if size == 0 {
					result, done = 1, true
				} else {
					phase, want, have = 1, size, 0
				}
			} else {
				result, done = 1, true
			}
			continue
		}
		if e != 0 {
			done = true
			if e == 2 {
				result = 4
			} else if phase == 0 && have == 0 {
				result = 2
			} else {
				result = 3
			}
		}
	}
	_ = first
	// a zero-size body needs one more (empty) read: real code calls read(0) which asks the reader once
	switch result {
	case 1:
		vAssert(err == nil, "message: complete message is returned without error")
		vAssert(len(data) == size, "message: body has the announced size")
		ok := true
		for j := 0; j < size && j < B; j++ {
			if data[j] != stream[4+j] {
				ok = false
			}
		}
		vAssert(ok, "message: body bytes are the bytes after the prefix, in order")
	case 2:
		vAssert(err == io.EOF, "message: end of input before the first byte is a clean EOF")
	case 3:
		vAssert(err == io.ErrUnexpectedEOF, "message: end of input inside prefix or body is an unexpected EOF")
		vAssert(data == nil, "message: no partial message is returned")
	case 4:
		vAssert(err == errVerifOther, "message: read errors pass through")
	case 5:
		vAssert(err != nil && err != io.EOF && err != io.ErrUnexpectedEOF, "message: oversize prefix is rejected with an error")
		vAssert(got == 4, "message: oversize body is never read")
		vAssert(data == nil, "message: no data for oversize")
	case 6:
		vAssert(err != nil, "stall: a stalled peer yields a timeout error")
		vAssert(r.prefixDone == (phase == 1), "stall: error names the unit being read")
		vAssert(r.bytesRead == have, "stall: error reports the bytes received of the current unit")
		if phase == 1 {
			vAssert(r.bytesExpecting == size, "stall: error reports the announced size")
		} else {
			vAssert(r.bytesExpecting == 4, "stall: error reports the prefix size")
		}
	}
}

func H09b_q() { h09b(2, 4, false) }
func H09d_q() { h09b(2, 4, true) }
