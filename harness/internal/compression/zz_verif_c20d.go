//go:build verif

package compression

import (
	"bytes"
	"compress/zlib"
	"errors"
	"io"
)

// C20, deflate wrapper: "a bad message in one call never makes a later, valid message fail or decode
// differently", for every history of a pooled instance. compress/zlib's reader is a contract stub for this
// harness (registry: Only) that keeps zlib's documented stickiness: a reader that failed keeps failing, and its
// Close reports that error. Natively the real zlib runs on real streams (valid, corrupt header, truncated).

var errVerifZlibHeader = errors.New("verif: zlib: invalid header")
var errVerifZlibData = errors.New("verif: zlib: unexpected EOF")

// kinds of input: 1, 2: valid streams of payloads '1', '2'; 3: corrupt header; 4: valid header, truncated body
type vZSrc struct {
	kind int
	buf  *bytes.Reader
}

func (s *vZSrc) Read(p []byte) (int, error) { return s.buf.Read(p) }

type vFakeZlibReader struct {
	kind int
	err  error
	done bool
}

func (z *vFakeZlibReader) Read(p []byte) (int, error) {
	if z.err != nil {
		return 0, z.err
	}
	if z.kind == 4 {
		z.err = errVerifZlibData
		return 0, z.err
	}
	if z.done {
		z.err = io.EOF
		return 0, io.EOF
	}
	z.done = true
	if len(p) > 0 {
		p[0] = byte('0' + z.kind)
	}
	return 1, nil
}

func (z *vFakeZlibReader) Close() error {
	if z.err != nil && z.err != io.EOF {
		return z.err
	}
	return nil
}

func vModelZlibNewReader(r io.Reader) (io.ReadCloser, error) {
	s, _ := r.(*vZSrc)
	if s == nil || s.kind == 3 {
		return nil, errVerifZlibHeader
	}
	return &vFakeZlibReader{kind: s.kind}, nil
}

func vMakeZSrc(kind int) *vZSrc {
	s := &vZSrc{kind: kind}
	if vNative() {
		var b bytes.Buffer
		w := zlib.NewWriter(&b)
		w.Write([]byte{byte('0' + kind)})
		w.Close()
		data := b.Bytes()
		switch kind {
		case 3:
			data = append([]byte{0xff, 0xff}, data[2:]...)
		case 4:
			data = data[:len(data)-5]
		}
		s.buf = bytes.NewReader(data)
	}
	return s
}

// h20d: every history of <=K operations {Reset(valid 1), Reset(valid 2), Reset(corrupt header), Reset(truncated),
// Read, Close} on one pooled deflate decompressor.
func h20d(K int) {
	dec := NewDeflateDecompressor()
	attached := 0
	consumed := false
	for i := 0; i < K; i++ {
		op := vIntAt("op", i, 6, 0, 5)
		switch {
		case op <= 1:
			err := dec.Reset(vMakeZSrc(op + 1))
			vAssert(err == nil, "Reset with a valid stream succeeds whatever happened to the instance before (a bad message never makes a later, valid one fail)")
			attached, consumed = op+1, false
		case op == 2:
			err := dec.Reset(vMakeZSrc(3))
			vAssert(err != nil, "a corrupt header is reported by Reset")
			attached = -3
		case op == 3:
			err := dec.Reset(vMakeZSrc(4))
			vAssert(err == nil, "a stream with a valid header is accepted by Reset")
			attached = -4
		case op == 4:
			var p [4]byte
			n, err := dec.Read(p[:])
			if attached > 0 && !consumed {
				vAssert(n == 1 && p[0] == byte('0'+attached) && (err == nil || err == io.EOF), "Read decodes the valid input the instance was last reset with")
				consumed = true
			} else if attached == -3 {
				vAssert(n == 0 && err != nil, "after a failed Reset the instance yields an error, not data")
			}
			// (a truncated body may still yield its first bytes before the error: nothing asserted)
		default:
			_ = dec.Close() // may report the failure of the malformed stream
			attached = 0
		}
	}
}

func H20d_q() { h20d(4) }
