//go:build verif

package compression

import (
	"bytes"
	"errors"
	"io"

	conformancev1 "connectrpc.com/conformance/internal/gen/proto/go/connectrpc/conformance/v1"
	"github.com/andybalholm/brotli"
	"github.com/golang/snappy"
	"github.com/klauspost/compress/zstd"
)

// C20 (mapping and wrapper-state clauses): the same enum denotes the same algorithm for compressor and
// decompressor, and the zstd wrapper never uses a closed library decoder again: after Close, Reset yields a
// usable instance, and Read after Close is a clean EOF. The compression algorithms themselves are third-party
// code and are contract stubs here (natively the real libraries run).

var errVerifNoSource = errors.New("verif: decoder has no input attached")
var errVerifClosed = errors.New("verif: decoder used after Close")

// state of the (stub) zstd library decoders, by creation order
type vZstdState struct {
	src    int // id of the attached input (0: none)
	closed bool
}

var vZstd [8]vZstdState
var vZstdObjs [8]*zstd.Decoder
var vZstdN int
var vUsedAfterClose bool

func vZstdIdx(d *zstd.Decoder) int {
	for i := 0; i < 8; i++ {
		if i < vZstdN && vZstdObjs[i] == d {
			return i
		}
	}
	return -1
}

func vSrcID(r io.Reader) int {
	if s, ok := r.(*vSrc); ok && s != nil {
		return s.id
	}
	return 0
}

// vSrc is an input: natively it carries a real zstd stream of a payload that identifies it
type vSrc struct {
	id  int
	buf *bytes.Reader
}

func (s *vSrc) Read(p []byte) (int, error) { return s.buf.Read(p) }

//verif:replace github.com/klauspost/compress/zstd.NewReader vModelZstdNewReader
func vModelZstdNewReader(r io.Reader, opts ...zstd.DOption) (*zstd.Decoder, error) {
	d := &zstd.Decoder{}
	if vZstdN < 8 {
		vZstdObjs[vZstdN] = d
		vZstd[vZstdN] = vZstdState{src: vSrcID(r)}
		vZstdN++
	}
	return d, nil
}

//verif:replace (*github.com/klauspost/compress/zstd.Decoder).Reset vModelZstdReset
func vModelZstdReset(d *zstd.Decoder, r io.Reader) error {
	i := vZstdIdx(d)
	if i < 0 {
		return errVerifNoSource
	}
	if vZstd[i].closed {
		vUsedAfterClose = true
		return errVerifClosed
	}
	vZstd[i].src = vSrcID(r)
	return nil
}

//verif:replace (*github.com/klauspost/compress/zstd.Decoder).Read vModelZstdRead
func vModelZstdRead(d *zstd.Decoder, p []byte) (int, error) {
	i := vZstdIdx(d)
	if i < 0 {
		return 0, errVerifNoSource
	}
	if vZstd[i].closed {
		vUsedAfterClose = true
		return 0, errVerifClosed
	}
	if vZstd[i].src == 0 {
		return 0, errVerifNoSource
	}
	if len(p) > 0 {
		p[0] = byte('0' + vZstd[i].src)
	}
	return 1, io.EOF
}

//verif:replace (*github.com/klauspost/compress/zstd.Decoder).Close vModelZstdClose
func vModelZstdClose(d *zstd.Decoder) {
	i := vZstdIdx(d)
	if i >= 0 {
		vZstd[i].closed = true
	}
}

//verif:replace github.com/andybalholm/brotli.NewReader vModelBrotliNewReader
func vModelBrotliNewReader(r io.Reader) *brotli.Reader { return &brotli.Reader{} }

//verif:replace github.com/golang/snappy.NewReader vModelSnappyNewReader
func vModelSnappyNewReader(r io.Reader) *snappy.Reader { return &snappy.Reader{} }

func vMakeSrc(id int) *vSrc {
	s := &vSrc{id: id}
	if vNative() {
		var b bytes.Buffer
		w, err := zstd.NewWriter(&b)
		if err != nil {
			panic(err)
		}
		w.Write([]byte{byte('0' + id)})
		w.Close()
		s.buf = bytes.NewReader(b.Bytes())
	}
	return s
}

// H20b: every history of <=4 operations {Reset(input 1), Reset(input 2), Read, Close} on one pooled zstd decompressor.
func h20b(K int) {
	vZstdN, vUsedAfterClose = 0, false
	dec := NewZstdDecompressor()
	attached := 0 // which input a Read should decode (0: nothing attached)
	consumed := false
	for i := 0; i < K; i++ {
		switch vIntAt("op", i, 6, 0, 3) {
		case 0:
			err := dec.Reset(vMakeSrc(1))
			vAssert(err == nil, "Reset succeeds on a fresh, used or closed instance")
			attached, consumed = 1, false
		case 1:
			err := dec.Reset(vMakeSrc(2))
			vAssert(err == nil, "Reset succeeds on a fresh, used or closed instance")
			attached, consumed = 2, false
		case 2:
			var p [4]byte
			n, err := dec.Read(p[:])
			if attached != 0 && !consumed {
				vAssert(n == 1 && p[0] == byte('0'+attached) && (err == nil || err == io.EOF), "Read decodes the input the instance was last reset with")
				consumed = true
			} else if attached == 0 {
				vAssert(n == 0 && err != nil, "Read without input yields no data")
			}
		default:
			vAssert(dec.Close() == nil, "Close succeeds")
			attached = 0
		}
		vAssert(!vUsedAfterClose, "a closed library decoder is never used again")
	}
}

func H20b_q() { h20b(4) }

// H20a: the enum -> algorithm mapping is the same for compressors and decompressors.
func H20a_q() {
	c := conformancev1.Compression(vInt("c", 0, 7))
	comp, cerr := GetCompressor(c)
	dec, derr := GetDecompressor(c)
	vAssert((cerr != nil) == (derr != nil), "an enum value is supported for compression iff it is for decompression")
	vAssert((cerr != nil) == (c == 7), "exactly the six encodings (and unspecified = identity) are supported")
	if cerr != nil || derr != nil {
		return
	}
	ck, dk := 0, 0
	switch comp.(type) {
	case *noOpCompressor:
		ck = 1
	}
	switch dec.(type) {
	case *noOpDecompressor:
		dk = 1
	case *brotliDecompressor:
		dk = 3
	case *zstdDecompressor:
		dk = 4
	case *deflateDecompressor:
		dk = 5
	case *snappyDecompressor:
		dk = 6
	}
	if c <= 1 {
		vAssert(ck == 1 && dk == 1, "identity / unspecified: no-op on both sides")
	} else if c != 2 {
		vAssert(ck != 1 && dk == int(c), "each enum value selects the decompressor of its own algorithm")
	}
}
