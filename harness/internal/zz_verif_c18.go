//go:build verif

package internal

import (
	"errors"

	conformancev1 "connectrpc.com/conformance/internal/gen/proto/go/connectrpc/conformance/v1"
	"google.golang.org/protobuf/encoding/protojson"
	"google.golang.org/protobuf/proto"
	"google.golang.org/protobuf/reflect/protoreflect"
	"google.golang.org/protobuf/types/known/anypb"
)

// C18 (strict codecs): each codec decodes what it encodes (it pairs a marshaller and an unmarshaller of the same
// wire format) and rejects, rather than drops, unknown fields. The wire formats themselves are contract stubs:
// binary output is tagged 'P', JSON output 'J'; an unmarshaller accepts only its own format.

var errVerifFormat = errors.New("verif: input is not in the format this unmarshaller understands")

type vCodecMsg struct {
	id      byte
	unknown []byte
	decoded int
}

func (m *vCodecMsg) ProtoReflect() protoreflect.Message { return &vCodecRefl{m: m} }

type vCodecRefl struct {
	protoreflect.Message
	m *vCodecMsg
}

func (r *vCodecRefl) GetUnknown() protoreflect.RawFields { return r.m.unknown }

//verif:replace (google.golang.org/protobuf/proto.MarshalOptions).MarshalAppend vModelProtoMarshalAppend
func vModelProtoMarshalAppend(o proto.MarshalOptions, b []byte, m proto.Message) ([]byte, error) {
	return append(b, 'P', m.(*vCodecMsg).id), nil
}

//verif:replace (google.golang.org/protobuf/proto.MarshalOptions).Marshal vModelProtoMarshalOpt
func vModelProtoMarshalOpt(o proto.MarshalOptions, m proto.Message) ([]byte, error) {
	return []byte{'P', m.(*vCodecMsg).id}, nil
}

//verif:replace google.golang.org/protobuf/proto.Unmarshal vModelProtoUnmarshal
func vModelProtoUnmarshal(b []byte, m proto.Message) error {
	if len(b) != 2 || b[0] != 'P' {
		return errVerifFormat
	}
	cm := m.(*vCodecMsg)
	cm.id = b[1]
	cm.decoded++
	return nil
}

//verif:replace (google.golang.org/protobuf/encoding/protojson.MarshalOptions).MarshalAppend vModelJSONMarshalAppend
func vModelJSONMarshalAppend(o protojson.MarshalOptions, b []byte, m proto.Message) ([]byte, error) {
	return append(b, 'J', m.(*vCodecMsg).id), nil
}

//verif:replace google.golang.org/protobuf/encoding/protojson.Unmarshal vModelJSONUnmarshal
func vModelJSONUnmarshal(b []byte, m proto.Message) error {
	if len(b) != 2 || b[0] != 'J' {
		return errVerifFormat
	}
	cm := m.(*vCodecMsg)
	cm.id = b[1]
	cm.decoded++
	return nil
}

func H18e_q() {
	id := vByte("id")
	if vNative() {
		vRunNativeC18e(id)
		return
	}
	// binary codec
	{
		var c StrictProtoCodec
		src := &vCodecMsg{id: id}
		data, err := c.Marshal(src)
		vAssert(err == nil, "proto codec: marshalling succeeds")
		dst := &vCodecMsg{}
		err = c.Unmarshal(data, dst)
		vAssert(err == nil && dst.id == id, "proto codec: Unmarshal(Marshal(m)) succeeds and yields m")
		data2, err2 := c.MarshalAppend([]byte{}, src)
		dst2 := &vCodecMsg{}
		vAssert(err2 == nil && c.Unmarshal(data2, dst2) == nil && dst2.id == id, "proto codec: Unmarshal(MarshalAppend(m)) succeeds and yields m")
		data3, err3 := c.MarshalStable(src)
		dst3 := &vCodecMsg{}
		vAssert(err3 == nil && c.Unmarshal(data3, dst3) == nil && dst3.id == id, "proto codec: Unmarshal(MarshalStable(m)) succeeds and yields m")
		// unknown fields are rejected, not dropped: any non-empty unknown-field bytes make Unmarshal fail
		nu := vInt("nunknown", 1, 3)
		unk := make([]byte, nu)
		for i := 0; i < nu; i++ {
			unk[i] = vByteAt("unk", i, 3)
		}
		dst4 := &vCodecMsg{unknown: unk}
		vAssert(c.Unmarshal([]byte{'P', id}, dst4) != nil, "proto codec: a message with unknown fields is rejected")
	}
	// JSON codec
	{
		var c StrictJSONCodec
		src := &vCodecMsg{id: id}
		data, err := c.Marshal(src)
		dst := &vCodecMsg{}
		vAssert(err == nil && c.Unmarshal(data, dst) == nil && dst.id == id, "json codec: Unmarshal(Marshal(m)) succeeds and yields m")
	}
}

func vRunNativeC18e(id byte) {
	var c StrictProtoCodec
	src := &conformancev1.Header{Name: string([]byte{'n', id & 0x7f})}
	data, err := c.Marshal(src)
	vAssert(err == nil, "proto codec: marshalling succeeds")
	dst := &conformancev1.Header{}
	err = c.Unmarshal(data, dst)
	vAssert(err == nil && dst.Name == src.Name, "proto codec: Unmarshal(Marshal(m)) succeeds and yields m")
	data2, err2 := c.MarshalAppend([]byte{}, src)
	dst2 := &conformancev1.Header{}
	vAssert(err2 == nil && c.Unmarshal(data2, dst2) == nil && dst2.Name == src.Name, "proto codec: Unmarshal(MarshalAppend(m)) succeeds and yields m")
	var j StrictJSONCodec
	dj, errj := j.Marshal(src)
	dstj := &conformancev1.Header{}
	vAssert(errj == nil && j.Unmarshal(dj, dstj) == nil && dstj.Name == src.Name, "json codec: Unmarshal(Marshal(m)) succeeds and yields m")
}

// H18c: test-case form -> Connect form -> test-case form preserves code, message and every detail (type and bytes).
func H18c_q() {
	code := vInt("code", 1, 16)
	msgs := [2]string{"", "boom"}
	msg := msgs[vInt("msg", 0, 1)]
	nd := vInt("ndetails", 0, 2)
	var details []*anypb.Any
	var urls [2]string
	var lens [2]int
	for i := 0; i < nd; i++ {
		k := vIntAt("dtype", i, 2, 0, 1)
		urls[i] = "type.googleapis.com/connectrpc.conformance.v1.Header"
		if k == 1 {
			urls[i] = "type.googleapis.com/google.protobuf.Empty"
		}
		lens[i] = vIntAt("dlen", i, 2, 0, 2) // zero-length values are legal (e.g. an empty message)
		val := make([]byte, lens[i])
		for j := 0; j < lens[i]; j++ {
			val[j] = byte(10*i + j + 1)
		}
		details = append(details, &anypb.Any{TypeUrl: urls[i], Value: val})
	}
	in := &conformancev1.Error{Code: conformancev1.Code(code), Message: &msg, Details: details}
	ce := ConvertProtoToConnectError(in)
	vAssert(ce != nil, "a non-nil error converts to a non-nil Connect error")
	out := ConvertConnectToProtoError(ce)
	vAssert(out != nil && int(out.Code) == code && out.GetMessage() == msg, "code and message survive the round trip")
	vAssert(len(out.Details) == nd, "every detail survives the round trip")
	for i := 0; i < 2; i++ {
		if i < nd && i < len(out.Details) {
			d := out.Details[i]
			vAssert(d.TypeUrl == urls[i], "detail type survives, with the default type-URL prefix restored")
			ok := len(d.Value) == lens[i]
			for j := 0; j < lens[i] && j < len(d.Value); j++ {
				if d.Value[j] != byte(10*i+j+1) {
					ok = false
				}
			}
			vAssert(ok, "detail bytes survive, in order")
		}
	}
	vAssert(ConvertProtoToConnectError(nil) == nil && ConvertConnectToProtoError(nil) == nil, "nil converts to nil")
}
