//go:build verif

package internal

import (
	"errors"
	"io"
	"net/http"

	"connectrpc.com/connect"
	"connectrpc.com/conformance/internal/compression"
	"google.golang.org/protobuf/types/known/anypb"

	conformancev1 "connectrpc.com/conformance/internal/gen/proto/go/connectrpc/conformance/v1"
)

// C17: raw HTTP payload encoders write exactly the specified bytes and are invertible.

var errVerifWrite = errors.New("verif: write error")

// vRecWriter records what reaches the wire. It also has a Close method (like the pipe the reference client
// writes raw request bodies to): the encoders do not own the destination and must not close it.
type vRecWriter struct {
	buf    [40]byte
	n      int
	calls  int
	failAt int // call index that fails (-1: never)
	closed int
}

func (w *vRecWriter) Write(p []byte) (int, error) {
	i := w.calls
	w.calls++
	if w.closed > 0 {
		return 0, errVerifWrite
	}
	if i == w.failAt {
		return 0, errVerifWrite
	}
	for j := 0; j < len(p); j++ {
		if w.n < len(w.buf) {
			w.buf[w.n] = p[j]
		}
		w.n++
	}
	return len(p), nil
}

func (w *vRecWriter) Close() error {
	w.closed++
	return nil
}

func h17a(N, L int) {
	n := vInt("nitems", 0, N)
	var flags [3]int32
	var hasLen [3]bool
	var explicit [3]uint32
	var plen [3]int
	var payload [3][3]byte
	items := make([]*conformancev1.StreamContents_StreamItem, 0, 3)
	for i := 0; i < n; i++ {
		flags[i] = int32(vIntAt("flags", i, 3, 0, 300))
		hasLen[i] = vBoolAt("hasLen", i, 3)
		if i == 0 {
			explicit[i] = vU32("explicit0")
		} else {
			explicit[i] = vU32("explicit1")
		}
		plen[i] = vIntAt("plen", i, 3, 0, L)
		data := make([]byte, plen[i])
		for j := 0; j < plen[i]; j++ {
			payload[i][j] = vByteAt("payload", i*3+j, 9)
			data[j] = payload[i][j]
		}
		it := &conformancev1.StreamContents_StreamItem{
			Flags:   uint32(flags[i]),
			Payload: &conformancev1.MessageContents{Data: &conformancev1.MessageContents_Binary{Binary: data}},
		}
		if vBoolAt("noPayload", i, 3) {
			it.Payload = &conformancev1.MessageContents{}
			plen[i] = 0
			if vBoolAt("nilPayload", i, 3) {
				it.Payload = nil // an item that only gives flags (and perhaps a length): what a decoded suite yields
			}
		}
		if hasLen[i] {
			it.Length = &explicit[i]
		}
		items = append(items, it)
	}
	w := &vRecWriter{failAt: -1}
	err := WriteRawStreamContents(&conformancev1.StreamContents{Items: items}, w)

	// reference: flags || be32(length) || payload per item; flags > 255 stops with an error naming the item
	var want [40]byte
	wn := 0
	wantErr := false
	for i := 0; i < N; i++ {
		if i < n && !wantErr {
			if flags[i] > 255 {
				wantErr = true
			} else {
				l := uint32(plen[i])
				if hasLen[i] {
					l = explicit[i]
				}
				want[wn] = byte(flags[i])
				want[wn+1], want[wn+2], want[wn+3], want[wn+4] = byte(l>>24), byte(l>>16), byte(l>>8), byte(l)
				wn += 5
				for j := 0; j < plen[i]; j++ {
					want[wn] = payload[i][j]
					wn++
				}
			}
		}
	}
	vAssert((err != nil) == wantErr, "error exactly when some item has flags above 255")
	vAssert(w.closed == 0, "the encoder does not close the destination it was given")
	vAssert(w.n == wn, "exactly the specified number of bytes is written")
	same := true
	for k := 0; k < 40; k++ {
		if k < wn && w.buf[k] != want[k] {
			same = false
		}
	}
	vAssert(same, "each item is written as flags, big-endian length (explicit or computed), payload, in order")
	// invertibility (computed lengths): decoding what was written returns the items
	if !wantErr {
		pos := 0
		ok := true
		for i := 0; i < N; i++ {
			if i < n && !hasLen[i] && pos+5 <= w.n {
				l := int(w.buf[pos+1])<<24 | int(w.buf[pos+2])<<16 | int(w.buf[pos+3])<<8 | int(w.buf[pos+4])
				if int32(w.buf[pos]) != flags[i] || l != plen[i] {
					ok = false
				}
				pos += 5 + l
			} else if i < n {
				pos += 5 + plen[i]
			}
		}
		vAssert(ok, "decoding the written stream returns the specified flags and payload lengths")
	}
}

func H17a_q() { h17a(2, 2) }
func H17a_t() { h17a(3, 3) }

// ---- H17e: per-item compression in the raw message encoder ----
//
// Symbolically the compressors are replaced by a framing model (one header byte naming the algorithm, the
// payload, one trailer byte written by Close): like the real formats it produces output even for an empty
// payload (except snappy, whose framing writes nothing without data) and only finishes the stream on Close. Natively the real compressors run and the expected bytes are
// produced by running the same real compressor directly.

type vFakeCompressor struct {
	tag     byte
	w       io.Writer
	started bool
}

func (c *vFakeCompressor) Reset(w io.Writer) { c.w = w; c.started = false }
func (c *vFakeCompressor) start() error {
	if c.started || c.tag == 0 {
		return nil
	}
	c.started = true
	_, err := c.w.Write([]byte{0xC0 + c.tag})
	return err
}
func (c *vFakeCompressor) Write(p []byte) (int, error) {
	if len(p) == 0 && c.tag == 6 {
		return 0, nil // the snappy framing writes nothing, not even its stream header, before the first data
	}
	if err := c.start(); err != nil {
		return 0, err
	}
	if len(p) == 0 {
		return 0, nil
	}
	return c.w.Write(p)
}
func (c *vFakeCompressor) Close() error {
	if c.tag == 0 || (c.tag == 6 && !c.started) {
		return nil
	}
	if err := c.start(); err != nil {
		return err
	}
	_, err := c.w.Write([]byte{0xE0 + c.tag})
	return err
}

// (replaces compression.GetCompressor for H17e only; see the harness registry)
func vModelGetCompressor(c conformancev1.Compression) (connect.Compressor, error) {
	switch {
	case c == 0 || c == 1:
		return &vFakeCompressor{}, nil
	case c >= 2 && c <= 6:
		return &vFakeCompressor{tag: byte(c)}, nil
	}
	return nil, errVerifWrite
}

func H17e_q() {
	comp := vInt("comp", 0, 7) // unspecified, identity, gzip, br, zstd, deflate, snappy, and an unknown value
	kind := vInt("kind", 0, 3) // no data, binary, binary message, text
	n := vInt("plen", 0, 2)
	data := make([]byte, n)
	for j := 0; j < n; j++ {
		data[j] = vByteAt("payload", j, 2)
	}
	mc := &conformancev1.MessageContents{Compression: conformancev1.Compression(comp)}
	switch kind {
	case 1:
		mc.Data = &conformancev1.MessageContents_Binary{Binary: data}
	case 2:
		mc.Data = &conformancev1.MessageContents_BinaryMessage{BinaryMessage: &anypb.Any{TypeUrl: "t", Value: data}}
	case 3:
		if vNative() {
			for j := range data {
				data[j] &= 0x7f // keep the text valid UTF-8 natively
			}
		}
		mc.Data = &conformancev1.MessageContents_Text{Text: string(data)}
	}
	w := &vRecWriter{failAt: -1}
	err := WriteRawMessageContents(mc, w)

	var want [40]byte
	wn := 0
	wantErr := false
	switch {
	case kind == 0:
		// no data: nothing at all is written, whatever the compression says
	case comp == 7:
		wantErr = true
	case vNative():
		ref := &vRecWriter{failAt: -1}
		c, cerr := compression.GetCompressor(conformancev1.Compression(comp))
		if cerr != nil {
			panic(cerr)
		}
		c.Reset(ref)
		if _, werr := c.Write(data); werr != nil {
			panic(werr)
		}
		if cerr := c.Close(); cerr != nil {
			panic(cerr)
		}
		want, wn = ref.buf, ref.n
	default:
		framed := comp >= 2 && !(comp == 6 && n == 0)
		if framed {
			want[wn] = 0xC0 + byte(comp)
			wn++
		}
		for j := 0; j < n; j++ {
			want[wn] = data[j]
			wn++
		}
		if framed {
			want[wn] = 0xE0 + byte(comp)
			wn++
		}
	}
	vAssert((err != nil) == wantErr, "error exactly for an unknown compression on a message that has data")
	vAssert(w.closed == 0, "the encoder does not close the destination it was given")
	if !wantErr {
		vAssert(w.n == wn, "exactly the compressed form of the given data is written (also for present-but-empty data)")
		same := true
		for k := 0; k < 40; k++ {
			if k < wn && w.buf[k] != want[k] {
				same = false
			}
		}
		vAssert(same, "the written bytes are the given data under the given compression")
	}
}

// ---- H17t: trailer entries whose names differ only in letter case ----
//
// net/http sends the values of one "Trailer:"-prefixed key in order, but orders (HTTP/1.1) or overwrites (HTTP/2)
// distinct keys: entries naming the same trailer in different case must therefore end up under one key, as header
// entries do (Header.Add canonicalises; the prefixed key is not canonicalised by it because of the colon).
func H17t_q() {
	names := [2]string{"x-foo", "X-Foo"}
	n := vInt("entries", 1, 3)
	var want [3]string
	src := make([]*conformancev1.Header, 0, 3)
	for i := 0; i < 3; i++ {
		if i < n {
			want[i] = string([]byte{byte('a' + i)})
			src = append(src, &conformancev1.Header{Name: names[vIntAt("name", i, 3, 0, 1)], Value: []string{want[i]}})
		}
	}
	asTrailers := vBool("trailers")
	dest := http.Header{}
	key := "X-Foo"
	if asTrailers {
		AddTrailers(src, dest)
		key = http.TrailerPrefix + "X-Foo"
	} else {
		AddHeaders(src, dest)
	}
	got := dest[key]
	vAssert(len(dest) == 1 && len(got) == n, "all entries of one name (in any letter case) end up under one key")
	for i := 0; i < 3; i++ {
		if i < n && i < len(got) {
			vAssert(got[i] == want[i], "with their values in the given order")
		}
	}
}
