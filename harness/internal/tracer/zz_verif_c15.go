//go:build verif

package tracer

import (
	"errors"
	"io"
	"net"
	"time"

	"golang.org/x/net/http2"
)

// C15 (transparency + frame reassembly): wrapping an HTTP/2 connection never changes what is read or written;
// the frame tracer cuts any byte stream into frames (9-byte header + declared payload) however it is chunked.

var errVerifConn = errors.New("verif: connection error")

type vTimeoutErr struct{}

func (vTimeoutErr) Error() string   { return "verif: i/o timeout" }
func (vTimeoutErr) Timeout() bool   { return true }
func (vTimeoutErr) Temporary() bool { return true }

type vConn struct {
	net.Conn
	n       int
	err     error
	closed  int
	readN   int
	wroteN  int
	lastBuf []byte
}

func (c *vConn) Read(p []byte) (int, error) {
	c.readN++
	for i := 0; i < c.n && i < len(p); i++ {
		p[i] = byte(0x40 + i)
	}
	return c.n, c.err
}
func (c *vConn) Write(p []byte) (int, error) {
	c.wroteN++
	c.lastBuf = p
	return c.n, c.err
}
func (c *vConn) Close() error                     { c.closed++; return c.err }
func (c *vConn) SetDeadline(time.Time) error      { return nil }
func (c *vConn) SetReadDeadline(time.Time) error  { return nil }
func (c *vConn) SetWriteDeadline(time.Time) error { return nil }

type vNullCollector struct{ n int }

func (c *vNullCollector) Complete(Trace) { c.n++ }

// H15a: Read / Write / Close return exactly the wrapped connection's results.
func H15a_q() {
	under := &vConn{}
	switch vInt("err", 0, 2) {
	case 1:
		under.err = errVerifConn
	case 2:
		under.err = vTimeoutErr{}
	}
	under.n = vInt("n", 0, 4)
	col := &vNullCollector{}
	c := &tracingHTTP2Conn{Conn: under, isServer: vBool("isServer"), collector: &http2RetryCollector{collector: col}}
	c.readTracer.c, c.writeTracer.c = c, c
	c.readTracer.broken, c.writeTracer.broken = true, true // frame parsing is the subject of H15b
	var buf [4]byte
	switch vInt("op", 0, 2) {
	case 0:
		n, err := c.Read(buf[:])
		vAssert(n == under.n && err == under.err && under.readN == 1, "Read returns the wrapped connection's count and error")
		ok := true
		for i := 0; i < 4; i++ {
			if i < n && buf[i] != byte(0x40+i) {
				ok = false
			}
		}
		vAssert(ok, "Read delivers the wrapped connection's bytes")
	case 1:
		n, err := c.Write(buf[:])
		vAssert(n == under.n && err == under.err && under.wroteN == 1 && len(under.lastBuf) == 4, "Write passes the same bytes and returns the wrapped connection's count and error")
	default:
		err := c.Close()
		vAssert(err == under.err && under.closed == 1, "Close is passed through")
	}
}

// ---- frame reassembly ----

var vFrames int

//verif:replace (*connectrpc.com/conformance/internal/tracer.http2FrameTracer).emitFrame vModelEmitFrame
func vModelEmitFrame(h *http2FrameTracer) bool {
	if vFrames < len(vEmitLens) {
		vEmitLens[vFrames] = h.frame.Len()
	}
	vFrames++
	h.frame.Reset()
	return true
}

var vEmitLens [4]int // bytes handed to the framer by each emitFrame call

//verif:replace golang.org/x/net/http2.ReadFrameHeader vModelReadFrameHeader
func vModelReadFrameHeader(r io.Reader) (http2.FrameHeader, error) {
	var b [9]byte
	n, _ := r.Read(b[:])
	if n < 9 {
		return http2.FrameHeader{}, io.ErrUnexpectedEOF
	}
	return http2.FrameHeader{
		Length:   uint32(b[0])<<16 | uint32(b[1])<<8 | uint32(b[2]),
		Type:     http2.FrameType(b[3]),
		Flags:    http2.Flags(b[4]),
		StreamID: (uint32(b[5])<<24 | uint32(b[6])<<16 | uint32(b[7])<<8 | uint32(b[8])) & (1<<31 - 1),
	}, nil
}

const vMaxFrames = 2

// h15b: response direction (no preface). Frames of an unknown type (ignored by the connection tracer) with
// declared payload lengths len#k; the stream is delivered in R chunks (case split), flags / stream ids / payload
// bytes symbolic. After every chunk the tracer's state equals the reference cut of the bytes seen so far.
func h15b(R int) {
	col := &vNullCollector{}
	c := &tracingHTTP2Conn{Conn: &vConn{}, collector: &http2RetryCollector{collector: col}}
	c.readTracer.c, c.writeTracer.c = c, c
	h := &c.readTracer
	stream := make([]byte, 0, 32)
	var lens [vMaxFrames]int
	var ends [vMaxFrames]int // offset just after frame k
	for k := 0; k < vMaxFrames; k++ {
		lens[k] = vIntAt("len", k, vMaxFrames, 0, 3)
		stream = append(stream, 0, 0, byte(lens[k]), 0x50, vByteAt("fflags", k, vMaxFrames), 0, 0, 0, 1+2*vByteAt("sid", k, vMaxFrames)&0x7)
		for j := 0; j < lens[k]; j++ {
			stream = append(stream, vByteAt("fpay", k*3+j, vMaxFrames*3))
		}
		ends[k] = len(stream)
	}
	total := len(stream)
	vFrames = 0
	pos := 0
	for i := 0; i < R; i++ {
		n := vIntAt("chunk", i, 4, 0, 24)
		if i == R-1 {
			vSkipCase(pos+n != total)
		} else {
			vSkipCase(pos+n > total)
		}
		h.trace(stream[pos : pos+n])
		pos += n
		// reference: complete frames so far, and how far into the current unit we are
		done := 0
		start := 0
		for k := 0; k < vMaxFrames; k++ {
			if ends[k] <= pos {
				done++
				start = ends[k]
			}
		}
		into := pos - start
		vAssert(!h.broken, "well-formed traffic never marks the tracer as broken")
		if !vNative() {
			vAssert(vFrames == done, "one frame is emitted per complete frame (header + declared payload), independent of the chunking")
		}
		if into < 9 {
			vAssert(len(h.prefix) == into && h.expecting == 0 && h.actual == 0, "inside a frame header the tracer has buffered exactly the header bytes seen")
		} else {
			vAssert(len(h.prefix) == 0 && int(h.expecting) == lens[done] && int(h.actual) == into-9, "inside a payload the tracer knows the declared length and the bytes seen so far")
		}
	}
}

func H15b_q() { h15b(3) }
func H15b_t() { h15b(4) }

// H15c: every byte that Read returns - also together with an error - and every byte handed to Write reaches the
// frame tracer of its direction exactly once (otherwise frames that arrive with the closing error, e.g. the
// trailers before a TLS close_notify, are missing from the trace and frame reassembly loses its place).
// Up to 4 bytes: they stay in the tracer's partial frame header (or client preface) buffer, where they can be counted.
func H15c_q() {
	under := &vConn{}
	switch vInt("err", 0, 2) {
	case 1:
		under.err = errVerifConn
	case 2:
		under.err = vTimeoutErr{}
	}
	under.n = vInt("n", 0, 4)
	isServer := vBool("isServer")
	c := &tracingHTTP2Conn{Conn: under, isServer: isServer, collector: &http2RetryCollector{collector: &vNullCollector{}}}
	c.readTracer = http2FrameTracer{c: c, isRequest: isServer}
	c.writeTracer = http2FrameTracer{c: c, isRequest: !isServer}
	seen := func(t *http2FrameTracer) int {
		if t.isRequest {
			return len(t.prefaceBytes) // the request direction starts with the 24-byte client preface
		}
		return len(t.prefix) // partial 9-byte frame header
	}
	var buf [4]byte
	if vBool("write") {
		_, _ = c.Write(buf[:])
		vAssert(seen(&c.writeTracer) == 4 && seen(&c.readTracer) == 0, "Write hands the bytes it was given to the write-direction tracer (and only to it)")
	} else {
		n, _ := c.Read(buf[:])
		vAssert(seen(&c.readTracer) == n && seen(&c.writeTracer) == 0, "Read hands exactly the bytes it returns to the read-direction tracer, also when it returns an error with them")
	}
}
