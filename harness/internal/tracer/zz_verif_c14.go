//go:build verif

package tracer

import (
	"bytes"
	"errors"
	"io"
	"net/http"
)

// C14: body tracing reconstructs the exact message sequence and never alters the data.

var errVerifBody = errors.New("verif: body read error")
var errVerifClose = errors.New("verif: close error")

const vMaxMsgs = 3
const vMaxReads = 4

//verif:replace (*bytes.Buffer).ReadFrom vModelBufReadFrom
func vModelBufReadFrom(b *bytes.Buffer, r io.Reader) (int64, error) {
	var tmp [8]byte
	total := int64(0)
	for {
		n, err := r.Read(tmp[:])
		b.Write(tmp[:n])
		total += int64(n)
		if err == io.EOF {
			return total, nil
		}
		if err != nil {
			return total, err
		}
	}
}

// vBody is the wrapped body: serves stream[0:limit] in symbolic chunks, then a symbolic terminal condition.
type vBody struct {
	stream   []byte
	limit    int
	pos      int
	calls    int
	maxReads int
	lastN    int
	lastErr  error
	closed   int
	closeErr error
}

func (b *vBody) Read(p []byte) (int, error) {
	i := b.calls
	b.calls++
	n := vIntAt("rn", i, vMaxReads, 0, 24)
	vAssume(n <= len(p) && b.pos+n <= b.limit)
	for j := 0; j < n; j++ {
		p[j] = b.stream[b.pos+j]
	}
	b.pos += n
	var err error
	if b.pos == b.limit {
		// at the end of the data the body reports EOF, an error, or (not yet) nothing
		switch vIntAt("re", i, vMaxReads, 0, 2) {
		case 1:
			err = io.EOF
		case 2:
			err = errVerifBody
		}
	} else if vBoolAt("rfail", i, vMaxReads) {
		err = errVerifBody // failure in the middle of the data
	}
	b.lastN, b.lastErr = n, err
	return n, err
}

func (b *vBody) Close() error {
	b.closed++
	return b.closeErr
}

type vCollector struct {
	n    int
	last Trace
}

func (c *vCollector) Complete(t Trace) {
	c.n++
	c.last = t
}

// vDecomp is a stand-in decompressor (contract stub): its output is the input with every byte xor 0x55.
type vDecomp struct {
	src io.Reader
}

func (d *vDecomp) Reset(r io.Reader) error { d.src = r; return nil }
func (d *vDecomp) Close() error            { return nil }
func (d *vDecomp) Read(p []byte) (int, error) {
	n, err := d.src.Read(p)
	for i := 0; i < n; i++ {
		p[i] ^= 0x55
	}
	return n, err
}

// expected event (reference)
type vEv struct {
	kind   int // 1 data, 2 end-stream, 3 body end
	hasEnv bool
	flags  byte
	elen   uint32
	n      uint64
	idx    int
	start  int // end-stream: payload position in stream
	clen   int
	xor    byte
	err    error
}

func h14w(M, L, R int) {
	isRequest, withDecomp := false, false
	// ---- the body: M messages (flags any byte, declared length <= L, any payload), cut after `limit` bytes
	stream := make([]byte, 0, vMaxMsgs*(5+4))
	var flags [vMaxMsgs]byte
	var lens [vMaxMsgs]int
	for k := 0; k < M; k++ {
		flags[k] = vByteAt("flags", k, vMaxMsgs)
		lens[k] = vIntAt("len", k, vMaxMsgs, 0, L)
		stream = append(stream, flags[k], 0, 0, 0, byte(lens[k]))
		for j := 0; j < lens[k]; j++ {
			stream = append(stream, vByteAt("payload", k*4+j, vMaxMsgs*4))
		}
	}
	limit := vInt("limit", 0, vMaxMsgs*(5+4))
	vSkipCase(limit > len(stream)) // lens and limit are case-split dimensions (concrete in each engine run)

	// ---- reference events, from the structure
	var want [2*vMaxMsgs + 2]vEv
	nw := 0
	pos, x := 0, 0
	stop := false
	for k := 0; k < M && !stop; k++ {
		rem := limit - pos
		if rem <= 0 {
			stop = true
		} else if rem < 5 {
			want[nw] = vEv{kind: 1, n: uint64(rem), idx: x}
			nw++
			stop = true
		} else {
			pos += 5
			if lens[k] == 0 {
				want[nw] = vEv{kind: 1, hasEnv: true, flags: flags[k], elen: 0, n: 0, idx: x}
				nw++
				x++
			} else {
				a := limit - pos
				if a < lens[k] {
					// cut inside the message - also exactly after its prefix (0 payload bytes seen): the announced
					// message must not vanish from the trace
					want[nw] = vEv{kind: 1, hasEnv: true, flags: flags[k], elen: uint32(lens[k]), n: uint64(a), idx: x}
					nw++
					stop = true
				} else {
					want[nw] = vEv{kind: 1, hasEnv: true, flags: flags[k], elen: uint32(lens[k]), n: uint64(lens[k]), idx: x}
					nw++
					x++
					if !isRequest && flags[k]&0x82 != 0 {
						ev := vEv{kind: 2, start: pos, clen: lens[k]}
						if withDecomp && flags[k]&1 != 0 {
							ev.xor = 0x55
						}
						want[nw] = ev
						nw++
					}
					pos += lens[k]
				}
			}
		}
	}

	// ---- the code under test: the handler writes the first `limit`+extra bytes in R writes; the last write may be short
	extra := vInt("extra", 0, 2) // bytes of the last write that the underlying writer does not accept
	vSkipCase(limit+extra > len(stream))
	under := &vShortWriter{hdr: http.Header{}}
	col := &vCollector{}
	bld := &builder{collector: col, trace: Trace{TestName: "t"}}
	tw := &tracingResponseWriter{respWriter: under, builder: bld, started: true, resp: &http.Response{Trailer: http.Header{}},
		dataTracer: dataTracer{isStreamProtocol: true, builder: bld}}
	pos = 0
	var werr error
	for i := 0; i < R && werr == nil; i++ {
		n := vIntAt("rn", i, vMaxReads, 0, 24)
		last := i == R-1
		if last {
			vSkipCase(pos+n != limit)
			under.accept = n
			under.fail = extra > 0 || vBool("lastFails")
			got, err := tw.Write(stream[pos : pos+n+extra])
			vAssert(got == n && (err != nil) == under.fail, "Write returns the underlying writer's count and error")
			werr = err
		} else {
			vSkipCase(pos+n > limit)
			under.accept = n
			got, err := tw.Write(stream[pos : pos+n])
			vAssert(got == n && err == nil, "Write returns the underlying writer's count and error")
		}
		pos += n
	}
	vAssert(under.bytes == limit, "exactly the accepted bytes reach the real writer")
	if werr == nil {
		tw.tryFinish(nil) // what TracingHandler does when the handler returns
	}
	vAssert(col.n == 1, "exactly one trace is completed")
	evs := col.last.Events
	vAssert(len(evs) == nw+1, "number of events = messages (+ end-stream) + one body end")
	for i := 0; i < nw && i < len(evs); i++ {
		w := want[i]
		kind := 0
		var hasEnv bool
		var fl byte
		var elen uint32
		var n uint64
		idx := -1
		switch ev := evs[i].(type) {
		case *ResponseBodyData:
			kind = 1
			if ev.Envelope != nil {
				hasEnv, fl, elen = true, ev.Envelope.Flags, ev.Envelope.Len
			}
			n, idx = ev.Len, ev.MessageIndex
		case *ResponseBodyEndStream:
			kind = 2
		}
		vAssert(kind == w.kind, "event kind in order")
		if w.kind == 1 && kind == 1 {
			vAssert(hasEnv == w.hasEnv && (!hasEnv || (fl == w.flags && elen == w.elen)) && n == w.n && idx == w.idx, "the trace shows what was actually written: envelope, bytes seen, index")
		}
	}
	if len(evs) == nw+1 {
		be, ok := evs[nw].(*ResponseBodyEnd)
		vAssert(ok && (be.Err != nil) == (werr != nil), "the body end carries the write error, if any")
	}
}

type vShortWriter struct {
	hdr    http.Header
	accept int
	fail   bool
	bytes  int
}

func (w *vShortWriter) Header() http.Header { return w.hdr }
func (w *vShortWriter) WriteHeader(int)     {}
func (w *vShortWriter) Write(p []byte) (int, error) {
	n := w.accept
	if n > len(p) {
		n = len(p)
	}
	w.bytes += n
	if w.fail {
		return n, errVerifBody
	}
	return n, nil
}

func H14w_q() { h14w(2, 2, 2) }

func h14a(M, L, R int, isRequest bool, withDecomp bool) {
	// ---- the body: M messages (flags any byte, declared length <= L, any payload), cut after `limit` bytes
	stream := make([]byte, 0, vMaxMsgs*(5+4))
	var flags [vMaxMsgs]byte
	var lens [vMaxMsgs]int
	for k := 0; k < M; k++ {
		flags[k] = vByteAt("flags", k, vMaxMsgs)
		lens[k] = vIntAt("len", k, vMaxMsgs, 0, L)
		stream = append(stream, flags[k], 0, 0, 0, byte(lens[k]))
		for j := 0; j < lens[k]; j++ {
			stream = append(stream, vByteAt("payload", k*4+j, vMaxMsgs*4))
		}
	}
	limit := vInt("limit", 0, vMaxMsgs*(5+4))
	vSkipCase(limit > len(stream)) // lens and limit are case-split dimensions (concrete in each engine run)
	closeFails := vBool("closeFails")

	// ---- reference events, from the structure
	var want [2*vMaxMsgs + 2]vEv
	nw := 0
	pos, x := 0, 0
	stop := false
	for k := 0; k < M && !stop; k++ {
		rem := limit - pos
		if rem <= 0 {
			stop = true
		} else if rem < 5 {
			want[nw] = vEv{kind: 1, n: uint64(rem), idx: x}
			nw++
			stop = true
		} else {
			pos += 5
			if lens[k] == 0 {
				want[nw] = vEv{kind: 1, hasEnv: true, flags: flags[k], elen: 0, n: 0, idx: x}
				nw++
				x++
			} else {
				a := limit - pos
				if a < lens[k] {
					// cut inside the message - also exactly after its prefix (0 payload bytes seen): the announced
					// message must not vanish from the trace
					want[nw] = vEv{kind: 1, hasEnv: true, flags: flags[k], elen: uint32(lens[k]), n: uint64(a), idx: x}
					nw++
					stop = true
				} else {
					want[nw] = vEv{kind: 1, hasEnv: true, flags: flags[k], elen: uint32(lens[k]), n: uint64(lens[k]), idx: x}
					nw++
					x++
					if !isRequest && flags[k]&0x82 != 0 {
						ev := vEv{kind: 2, start: pos, clen: lens[k]}
						if withDecomp && flags[k]&1 != 0 {
							ev.xor = 0x55
						}
						want[nw] = ev
						nw++
					}
					pos += lens[k]
				}
			}
		}
	}

	// ---- the code under test
	body := &vBody{stream: stream, limit: limit, maxReads: R}
	if closeFails {
		body.closeErr = errVerifClose
	}
	col := &vCollector{}
	bld := &builder{collector: col, trace: Trace{TestName: "t"}}
	tr := &tracingReader{reader: body, isRequest: isRequest, builder: bld, whenDone: func() {},
		dataTracer: dataTracer{isRequest: isRequest, isStreamProtocol: true, builder: bld}}
	if withDecomp {
		tr.dataTracer.decompressor = &vDecomp{}
	}
	var buf [vMaxMsgs * (5 + 4)]byte
	got := 0
	var finalErr error
	endKind := 0 // 1 = EOF, 2 = read error, 3 = closed by application
	for i := 0; i < R && endKind == 0; i++ {
		n, err := tr.Read(buf[got:])
		// transparency: same count, same error, same bytes
		vAssert(n == body.lastN, "Read returns the wrapped reader's count")
		vAssert(err == body.lastErr, "Read returns the wrapped reader's error")
		got += n
		if err == io.EOF {
			endKind = 1
		} else if err != nil {
			endKind, finalErr = 2, err
		}
	}
	same := true
	for j := 0; j < got; j++ {
		if buf[j] != stream[j] {
			same = false
		}
	}
	vAssert(same, "application receives exactly the wrapped reader's bytes")
	if endKind == 0 {
		cerr := tr.Close()
		vAssert(cerr == body.closeErr && body.closed == 1, "Close is passed through exactly once")
		endKind = 3
	}
	vAssume(got == limit) // the events below are stated for a body of exactly `limit` bytes
	_ = finalErr

	// ---- compare
	// a request body that ends cleanly does not end the operation (the response does); everything else completes the trace
	evs := col.last.Events
	if isRequest && endKind == 1 {
		vAssert(col.n == 0, "clean end of the request body does not complete the trace")
		evs = bld.trace.Events
	} else {
		vAssert(col.n == 1, "exactly one trace is completed")
	}
	vAssert(len(evs) == nw+1, "number of events = messages (+ end-stream) + one body end")
	for i := 0; i < nw && i < len(evs); i++ {
		w := want[i]
		var hasEnv bool
		var fl byte
		var elen uint32
		var n uint64
		idx := -1
		kind := 0
		content := ""
		switch ev := evs[i].(type) {
		case *RequestBodyData:
			kind = 1
			vAssert(isRequest, "request-side body yields request events")
			if ev.Envelope != nil {
				hasEnv, fl, elen = true, ev.Envelope.Flags, ev.Envelope.Len
			}
			n, idx = ev.Len, ev.MessageIndex
		case *ResponseBodyData:
			kind = 1
			vAssert(!isRequest, "response-side body yields response events")
			if ev.Envelope != nil {
				hasEnv, fl, elen = true, ev.Envelope.Flags, ev.Envelope.Len
			}
			n, idx = ev.Len, ev.MessageIndex
		case *ResponseBodyEndStream:
			kind = 2
			content = ev.Content
		}
		vAssert(kind == w.kind, "event kind in order")
		if w.kind == 1 && kind == 1 {
			vAssert(hasEnv == w.hasEnv, "envelope present exactly for complete prefixes")
			vAssert(!hasEnv || (fl == w.flags && elen == w.elen), "envelope flags and declared length are exact")
			vAssert(n == w.n, "data length is the bytes actually seen")
			vAssert(idx == w.idx, "message indices are consecutive")
		}
		if w.kind == 2 && kind == 2 {
			ok := len(content) == w.clen
			for j := 0; j < w.clen && j < len(content); j++ {
				if content[j] != stream[w.start+j]^w.xor {
					ok = false
				}
			}
			vAssert(ok, "end-stream content is the payload, decompressed exactly when the compressed flag is set")
		}
	}
	if len(evs) == nw+1 {
		var e error
		ok := false
		switch ev := evs[nw].(type) {
		case *RequestBodyEnd:
			ok, e = isRequest, ev.Err
		case *ResponseBodyEnd:
			ok, e = !isRequest, ev.Err
		}
		vAssert(ok, "last event is the body end of the right side")
		switch endKind {
		case 1:
			vAssert(e == nil, "clean EOF ends the body without error")
		case 2:
			vAssert(e == errVerifBody, "read error is recorded")
		case 3:
			vAssert(e != nil, "close before EOF is recorded as an error")
		}
	}
}

func H14a_resp_q()  { h14a(2, 2, 2, false, false) }
func H14a_respz_q() { h14a(2, 2, 2, false, true) }
func H14a_req_q()   { h14a(2, 2, 2, true, false) }
// one longer message delivered in three pieces (a payload that is still incomplete after two reads)
func H14a_resp3_q() { h14a(1, 3, 3, false, false) }
func H14a_resp_t()  { h14a(2, 2, 3, false, false) }
func H14a_respz_t() { h14a(3, 2, 3, false, true) }
func H14a_req_t()   { h14a(3, 2, 3, true, false) }

func H14a_d1() { h14a(1, 1, 1, false, false) }
func H14a_d2() { h14a(1, 2, 2, false, false) }
func H14a_d3() { h14a(2, 2, 2, false, false) }

// H14u: flushing an unfinished message is idempotent. The HTTP/2 connection tracer flushes a stream's request
// tracer when the request side ends and again when the stream is closed: the partial event must be reported
// once, and bytes traced afterwards start a fresh message.
func H14u_q() {
	isRequest := vBool("isRequest")
	col := &vCollector{}
	bld := &builder{collector: col, trace: Trace{TestName: "t"}}
	d := &dataTracer{isRequest: isRequest, isStreamProtocol: true, builder: bld}
	// one message of 2 payload bytes, of which the first `limit` bytes (0..7) are seen, in one or two pieces
	stream := []byte{vByte("flags"), 0, 0, 0, 2, vByte("p0"), vByte("p1")}
	limit := vInt("limit", 0, 7)
	cut := vInt("cut", 0, 7)
	vSkipCase(cut > limit) // limit and cut are case-split dimensions (concrete in each engine run)
	d.trace(stream[:cut])
	d.trace(stream[cut:limit])
	before := len(bld.trace.Events)
	d.emitUnfinished()
	after1 := len(bld.trace.Events)
	d.emitUnfinished()
	after2 := len(bld.trace.Events)
	wantPartial := 0
	if limit > 0 && limit < 7 {
		wantPartial = 1
	}
	vAssert(after1-before == wantPartial, "a body cut inside a prefix or a payload yields one final partial event; a body cut at a message boundary none")
	vAssert(after2 == after1, "flushing again reports nothing: the partial event is a single one")
	// a new message traced after the flush is cut afresh
	d.trace([]byte{0, 0, 0, 0, 1, 9})
	evs := bld.trace.Events
	vAssert(len(evs) == after2+1, "a message traced after the flush yields exactly its own event")
	if len(evs) == after2+1 {
		var env *Envelope
		var n uint64
		switch ev := evs[after2].(type) {
		case *RequestBodyData:
			env, n = ev.Envelope, ev.Len
		case *ResponseBodyData:
			env, n = ev.Envelope, ev.Len
		}
		vAssert(env != nil && env.Len == 1 && env.Flags == 0 && n == 1, "the message after the flush is reported with its own prefix and length")
	}
}
