//go:build verif

package tracer

import (
	"bytes"

	"golang.org/x/net/http2"
	"golang.org/x/net/http2/hpack"
)

// H15k: a header block split over HEADERS + CONTINUATION (named in C15's quantifier). The framer that decodes
// the frames reads a HEADERS frame without END_HEADERS together with its CONTINUATION frames, so the frame
// cutter must hand them over together - however the bytes are chunked.
//
// Symbolically emitFrame is the recording model of H15b (the framer and HPACK are third-party code): what is
// checked is what it is handed. Natively the real framer and HPACK decoder run on a real request whose header
// block is really split, on a server-side connection (client preface first).
func H15k_q() { h15k(1) }

// H15k3: a header block of three frames (HEADERS, CONTINUATION without END_HEADERS, CONTINUATION with it).
func H15k3_q() { h15k(2) }

func h15k(nCont int) {
	total := 10 + 10*nCont
	split := vBool("split") // the HEADERS frame lacks END_HEADERS and a CONTINUATION follows
	var stream []byte
	var first int // length of the first frame
	if vNative() {
		var hb bytes.Buffer
		enc := hpack.NewEncoder(&hb)
		for _, f := range []hpack.HeaderField{{Name: ":method", Value: "POST"}, {Name: ":scheme", Value: "http"}, {Name: ":authority", Value: "h"},
			{Name: ":path", Value: "/svc/M"}, {Name: "x-test-case-name", Value: vNames[0]}} {
			enc.WriteField(f)
		}
		block := hb.Bytes()
		var out bytes.Buffer
		fr := http2.NewFramer(&out, nil)
		if split {
			fr.WriteHeaders(http2.HeadersFrameParam{StreamID: 1, BlockFragment: block[:5], EndHeaders: false})
			first = out.Len()
			if nCont == 2 {
				fr.WriteContinuation(1, false, block[5:10])
				fr.WriteContinuation(1, true, block[10:])
			} else {
				fr.WriteContinuation(1, true, block[5:])
			}
		} else {
			fr.WriteHeaders(http2.HeadersFrameParam{StreamID: 1, BlockFragment: block, EndHeaders: true})
			first = out.Len()
			fr.WriteSettingsAck()
		}
		stream = append([]byte(http2.ClientPreface), out.Bytes()...)
		first += len(http2.ClientPreface)
	} else {
		flags0 := byte(0)
		type1, flags1 := byte(0x50), byte(0) // a frame of an unknown type
		if split {
			type1, flags1 = 0x9, 0x4 // CONTINUATION with END_HEADERS
		} else {
			flags0 = 0x4 // END_HEADERS
		}
		stream = []byte{0, 0, 1, 0x1, flags0, 0, 0, 0, 1, vByte("p0"), 0, 0, 1, type1, flags1, 0, 0, 0, 1, vByte("p1")}
		if nCont == 2 {
			// the middle frame: a CONTINUATION without END_HEADERS when the block is split, any other frame otherwise
			mid := []byte{0, 0, 1, type1, 0, 0, 0, 0, 1, vByte("pm")}
			stream = append(append(append([]byte{}, stream[:10]...), mid...), stream[10:]...)
		}
		first = 10
	}
	rec := &vTraceRec{}
	c := &tracingHTTP2Conn{Conn: &vConn{}, isServer: vNative(), collector: &http2RetryCollector{collector: rec}}
	c.readTracer = http2FrameTracer{c: c, isRequest: vNative(), decoder: hpack.NewDecoder(4096, nil)}
	h := &c.readTracer
	cut := vInt("cut", 0, total) // the bytes arrive in two reads: stream[:cut], stream[cut:]
	if vNative() {
		cut = cut * len(stream) / total
	}
	vFrames = 0
	h.trace(stream[:cut])
	h.trace(stream[cut:])
	vAssert(!h.broken, "a header block split over HEADERS and CONTINUATION does not break the frame tracer")
	if vNative() {
		_, tracked := c.streams[1]
		vAssert(tracked, "the stream opened by the split header block is tracked under its test name")
		_ = first
		return
	}
	if split {
		vAssert(vFrames == 1 && vEmitLens[0] == total, "a HEADERS frame without END_HEADERS is handed to the framer together with all its CONTINUATION frames")
	} else {
		vAssert(vFrames == 1+nCont && vEmitLens[0] == first && vEmitLens[1] == 10, "complete frames are handed to the framer one by one")
	}
}
