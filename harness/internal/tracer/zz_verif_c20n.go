//go:build verif

package tracer

import (
	"io"

	"connectrpc.com/connect"
	conformancev1 "connectrpc.com/conformance/internal/gen/proto/go/connectrpc/conformance/v1"
)

// C20 (naming clause, wire tracer): an encoding name seen on the wire selects the same algorithm as the enum
// value of that name everywhere else. tracer.GetDecompressor runs for real; compression.GetDecompressor is a
// recorder for this harness (registry: Only) so that the selected algorithm is observable without running the
// third-party decoders. Natively the real decompressor is asked to decode a stream produced by the real
// compressor of the expected algorithm.

type vTagDecomp struct {
	tag conformancev1.Compression
}

func (d *vTagDecomp) Read(p []byte) (int, error) { return 0, io.EOF }
func (d *vTagDecomp) Close() error               { return nil }
func (d *vTagDecomp) Reset(io.Reader) error      { return nil }

func vModelGetDecompressorTag(c conformancev1.Compression) (connect.Decompressor, error) {
	return &vTagDecomp{tag: c}, nil
}

var vEncNames = [10]string{"", "identity", "gzip", "br", "zstd", "deflate", "snappy", "GZIP", "Zstd", "lz4"}
var vEncWant = [10]conformancev1.Compression{
	conformancev1.Compression_COMPRESSION_IDENTITY, conformancev1.Compression_COMPRESSION_IDENTITY,
	conformancev1.Compression_COMPRESSION_GZIP, conformancev1.Compression_COMPRESSION_BR,
	conformancev1.Compression_COMPRESSION_ZSTD, conformancev1.Compression_COMPRESSION_DEFLATE,
	conformancev1.Compression_COMPRESSION_SNAPPY, conformancev1.Compression_COMPRESSION_GZIP,
	conformancev1.Compression_COMPRESSION_ZSTD, conformancev1.Compression_COMPRESSION_UNSPECIFIED,
}

func H20n_q() {
	k := vInt("name", 0, 9)
	d := GetDecompressor(vEncNames[k])
	vAssert(d != nil, "a decompressor is always returned")
	if vNative() {
		vNativeCheckAlgorithm(d, vEncWant[k], k == 9)
		return
	}
	td, isTag := d.(*vTagDecomp)
	if k == 9 {
		vAssert(!isTag, "an unknown encoding name selects no algorithm (its content is treated as empty)")
		return
	}
	vAssert(isTag && td.tag == vEncWant[k], "the wire tracer maps an encoding name (any letter case) to the algorithm of that name")
}
