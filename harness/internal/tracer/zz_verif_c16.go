//go:build verif

package tracer

import (
	"context"
	"errors"
	"runtime"
	"time"
)

// C16: trace hand-off delivers each call's trace exactly once to the right waiter (atomic-step schedules).

type vCtx struct {
	done chan struct{}
	err  error
}

func (c *vCtx) Deadline() (time.Time, bool) { return time.Time{}, false }
func (c *vCtx) Done() <-chan struct{}       { return c.done }
func (c *vCtx) Err() error                  { return c.err }
func (c *vCtx) Value(k any) any             { return nil }

const vMaxOps = 6

var vMarks = [vMaxOps + 1]error{
	nil, errors.New("m1"), errors.New("m2"), errors.New("m3"), errors.New("m4"), errors.New("m5"), errors.New("m6"),
}

type vWaiter struct {
	used           bool
	name           int
	ctx            *vCtx
	existed        bool // ghost: slot existed when the wait began
	gen            int  // ghost: generation of the slot it waits on
	finished       bool
	trace          *Trace
	err            error
	fin            chan struct{}
}

type vSched struct {
	t       *Tracer
	n, next int
	// ghost state per name
	exists  [2]bool
	done    [2]bool
	gen     [2]int
	genCtr  int
	compl   [2*vMaxOps + 2]int // completion value per generation (0: never completed)
	waiters [vMaxOps]vWaiter
}

var vS *vSched

func vTestName(k int) string {
	if k == 0 {
		return "t/a"
	}
	return "t/b"
}

func vStep() {
	s := vS
	i := s.next
	s.next++
	name := vIntAt("name", i, vMaxOps, 0, 1)
	switch vIntAt("op", i, vMaxOps, 0, 3) {
	case 0: // Init
		s.t.Init(vTestName(name))
		s.genCtr++
		s.exists[name], s.done[name], s.gen[name] = true, false, s.genCtr
	case 1: // Complete
		s.t.Complete(Trace{TestName: vTestName(name), Err: vMarks[i+1]})
		if s.exists[name] && !s.done[name] {
			s.done[name] = true
			s.compl[s.gen[name]] = i + 1
		}
	case 2: // Clear
		s.t.Clear(vTestName(name))
		s.exists[name] = false
	default: // Await
		w := &s.waiters[i]
		w.used, w.name = true, name
		w.ctx = &vCtx{done: make(chan struct{})}
		w.existed, w.gen = s.exists[name], s.gen[name]
		if vNative() {
			w.fin = make(chan struct{})
			go func() {
				w.trace, w.err = s.t.Await(w.ctx, vTestName(name))
				close(w.fin)
			}()
			time.Sleep(20 * time.Millisecond) // let the waiter reach its wait before the next operation
		} else {
			w.trace, w.err = s.t.Await(w.ctx, vTestName(name))
			w.finished = true
		}
	}
}

// vOnBlock: a waiter is blocked; the other operations of the script go on, and when none is left the contexts end.
//
// A waiter whose slot has just been completed is only *runnable*: the goroutine that completed it may go on with
// further operations (Clear, a new Init, ...) before the woken waiter actually runs. yield#i says whether the
// waiters get to run after operation i; an Await is always such a point (natively the script sleeps there).
func vOnBlock() {
	s := vS
	if s.next < s.n {
		for {
			i := s.next
			isAwait := vIntAt("op", i, vMaxOps, 0, 3) == 3
			vStep()
			if s.next >= s.n || isAwait || vBoolAt("yield", i, vMaxOps) {
				break
			}
		}
		return
	}
	vCancelAll()
}

func vCancelAll() {
	s := vS
	for i := 0; i < vMaxOps; i++ {
		w := &s.waiters[i]
		if w.used && w.ctx.err == nil {
			w.ctx.err = context.Canceled
			close(w.ctx.done)
		}
	}
}

func h16a(K int) {
	vS = &vSched{t: &Tracer{}, n: K}
	if vNative() {
		// one processor: a woken waiter runs only when the script sleeps, which is what yield#i decides
		defer runtime.GOMAXPROCS(runtime.GOMAXPROCS(1))
	}
	for vS.next < vS.n {
		i := vS.next
		vStep()
		if vNative() && vBoolAt("yield", i, vMaxOps) {
			time.Sleep(5 * time.Millisecond)
		}
	}
	if vNative() {
		vCancelAll()
		for i := 0; i < vMaxOps; i++ {
			if vS.waiters[i].used {
				<-vS.waiters[i].fin
			}
		}
	}
	for i := 0; i < vMaxOps; i++ {
		w := &vS.waiters[i]
		if !w.used {
			continue
		}
		if !w.existed {
			vAssert(w.err != nil && w.trace == nil, "waiting on a cleared or never-initialised test fails")
			continue
		}
		want := vS.compl[w.gen]
		if want != 0 {
			vAssert(w.err == nil && w.trace != nil, "a waiter obtains the trace completed for its slot, whether completion came before or after the wait began")
			if w.trace != nil {
				vAssert(w.trace.Err == vMarks[want] && w.trace.TestName == vTestName(w.name), "the waiter obtains precisely the first trace completed after the slot was initialised")
			}
		} else {
			vAssert(w.err != nil, "a wait whose slot is never completed ends with its context")
		}
	}
}

func H16a_q() { h16a(4) }
func H16a_t() { h16a(5) }

// H16b: each traced operation completes its trace exactly once and records no event after completion,
// for every order of builder events.
func h16b(K int) {
	col := &vCollector{}
	b := &builder{collector: col, trace: Trace{TestName: "t"}}
	finished := false
	recorded := 0 // events that should be in the completed trace
	reqIdx, respIdx := 0, 0
	okIdx := true
	for i := 0; i < K; i++ {
		op := vIntAt("ev", i, 6, 0, 6)
		var ev Event
		fin := false
		switch op {
		case 0:
			e := &RequestBodyData{Len: 1}
			ev = e
		case 1:
			if vBoolAt("evErr", i, 6) {
				ev, fin = &RequestBodyEnd{Err: errVerifBody}, true
			} else {
				ev = &RequestBodyEnd{}
			}
		case 2:
			ev = &ResponseBodyData{Len: 1}
		case 3:
			ev, fin = &ResponseBodyEnd{}, true
		case 4:
			ev, fin = &RequestCanceled{}, true
		case 5:
			ev, fin = &ResponseError{Err: errVerifBody}, true
		default:
			b.build()
			if !finished {
				finished = true
			}
			continue
		}
		b.add(ev)
		if !finished {
			recorded++
			switch e := ev.(type) {
			case *RequestBodyData:
				if e.MessageIndex != reqIdx {
					okIdx = false
				}
				reqIdx++
			case *ResponseBodyData:
				if e.MessageIndex != respIdx {
					okIdx = false
				}
				respIdx++
			}
			if fin {
				finished = true
			}
		}
		vAssert(col.n <= 1, "the collector is never called twice for one operation")
	}
	if finished {
		vAssert(col.n == 1, "a finishing event or build() completes the trace exactly once")
		vAssert(len(col.last.Events) == recorded, "no event is recorded after completion")
	} else {
		vAssert(col.n == 0, "without a finishing event the trace is not completed")
	}
	vAssert(okIdx, "message indices are consecutive per direction")
}

func H16b_q() { h16b(4) }
func H16b_t() { h16b(6) }
