//go:build verif

package tracer

import (
	"bytes"
	"io"

	"connectrpc.com/connect"
	"connectrpc.com/conformance/internal/compression"
	conformancev1 "connectrpc.com/conformance/internal/gen/proto/go/connectrpc/conformance/v1"
)

// vNativeCheckAlgorithm (native replay only): the decompressor must decode what the real compressor of the
// expected algorithm produced; for an unknown name it must yield nothing.
func vNativeCheckAlgorithm(d connect.Decompressor, want conformancev1.Compression, unknown bool) {
	payload := []byte("the quick brown fox jumps over the lazy dog")
	if unknown {
		_ = d.Reset(bytes.NewReader(payload))
		out, _ := io.ReadAll(d)
		vAssert(len(out) == 0, "an unknown encoding name selects no algorithm (its content is treated as empty)")
		return
	}
	c, err := compression.GetCompressor(want)
	if err != nil {
		panic(err)
	}
	var buf bytes.Buffer
	c.Reset(&buf)
	if _, err := c.Write(payload); err != nil {
		panic(err)
	}
	if err := c.Close(); err != nil {
		panic(err)
	}
	ok := false
	if err := d.Reset(&buf); err == nil {
		if out, err := io.ReadAll(d); err == nil && bytes.Equal(out, payload) {
			ok = true
		}
	}
	vAssert(ok, "the wire tracer maps an encoding name (any letter case) to the algorithm of that name")
}
