//go:build verif

package tracer

import (
	"golang.org/x/net/http2"
	"golang.org/x/net/http2/hpack"
)

// C15 (attribution): frames of concurrent streams, in any interleaving, end up in the trace of their own stream,
// and each stream that carries a test name yields exactly one completed trace with its end or reset.
// The harness drives handleFrame (the step function of the connection tracer, below the frame cutter checked
// by H15b and the HPACK decoder of x/net) with decoded frames of two streams on a server-side connection.

type vTraceRec struct {
	n     int
	names [6]string
	kinds [6]int // 0: no error, 1: stream error, 2: connection error, 3: other
	resp  [6]bool
	trl   [6]bool
}

func (c *vTraceRec) Complete(t Trace) {
	if c.n < len(c.names) {
		c.names[c.n] = t.TestName
		switch t.Err.(type) {
		case nil:
			c.kinds[c.n] = 0
		case http2.StreamError:
			c.kinds[c.n] = 1
		case http2.ConnectionError:
			c.kinds[c.n] = 2
		default:
			c.kinds[c.n] = 3
		}
		c.resp[c.n] = t.Response != nil
		c.trl[c.n] = t.Response != nil && len(t.Response.Trailer) > 0
	}
	c.n++
}

func vHeaders(id uint32, end bool, fields []hpack.HeaderField) *http2.MetaHeadersFrame {
	flags := http2.FlagHeadersEndHeaders
	if end {
		flags |= http2.FlagHeadersEndStream
	}
	return &http2.MetaHeadersFrame{
		HeadersFrame: &http2.HeadersFrame{FrameHeader: http2.FrameHeader{Type: http2.FrameHeaders, Flags: flags, StreamID: id}},
		Fields:       fields,
	}
}

func h15g(N int) {
	rec := &vTraceRec{}
	c := &tracingHTTP2Conn{isServer: true, collector: &http2RetryCollector{collector: rec}}
	ids := [2]uint32{1, 3}
	var st [2]int // 0: not started, 1: open, 2: over
	var reqEnded, respStarted, gotTrailers [2]bool
	var wantN, wantKind [2]int
	var wantResp, wantTrl [2]bool
	var maxID uint32
	// a stream may also carry no test name (traffic that is not a conformance test): it is traced by nobody,
	// but must not disturb the tracer
	named := [2]bool{vBoolAt("named", 0, 2), vBoolAt("named", 1, 2)}
	for i := 0; i < N; i++ {
		op := vIntAt("op", i, N, 0, 3)
		s := vIntAt("stream", i, N, 0, 1)
		end := vBoolAt("end", i, N)
		id := ids[s]
		switch op {
		case 0: // HEADERS from the client: opens the stream, or request trailers
			vAssume(st[s] != 2 && !reqEnded[s])
			vAssume(st[s] == 1 || maxID == 0 || id <= maxID) // a client does not open streams beyond a GOAWAY
			if st[s] == 0 {
				st[s] = 1
				fields := []hpack.HeaderField{
					{Name: ":method", Value: "POST"}, {Name: ":scheme", Value: "http"}, {Name: ":authority", Value: "h"},
					{Name: ":path", Value: "/svc/M"},
				}
				if named[s] {
					fields = append(fields, hpack.HeaderField{Name: "x-test-case-name", Value: vNames[s]})
				}
				c.handleFrame(vHeaders(id, end, fields), true)
			} else {
				vAssume(end) // trailers always end the stream
				c.handleFrame(vHeaders(id, end, []hpack.HeaderField{{Name: "x-req-trailer", Value: "1"}}), true)
			}
			if end {
				reqEnded[s] = true
			}
		case 1: // HEADERS from the server: response headers, or response trailers
			vAssume(st[s] == 1)
			if !respStarted[s] {
				respStarted[s] = true
				c.handleFrame(vHeaders(id, end, []hpack.HeaderField{{Name: ":status", Value: "200"}, {Name: "content-type", Value: "application/proto"}}), false)
			} else {
				vAssume(end)
				gotTrailers[s] = true
				c.handleFrame(vHeaders(id, end, []hpack.HeaderField{{Name: "x-trailer", Value: "1"}}), false)
			}
			if end {
				st[s] = 2
				wantN[s], wantKind[s], wantResp[s], wantTrl[s] = 1, 0, true, gotTrailers[s]
			}
		case 2: // RST_STREAM, from either side
			vAssume(st[s] == 1)
			fromClient := end
			c.handleFrame(&http2.RSTStreamFrame{FrameHeader: http2.FrameHeader{Type: http2.FrameRSTStream, StreamID: id}, ErrCode: http2.ErrCodeCancel}, fromClient)
			st[s] = 2
			wantN[s], wantKind[s], wantResp[s] = 1, 1, respStarted[s]
		default: // GOAWAY
			last := [4]uint32{0, 1, 3, 5}[vIntAt("last", i, N, 0, 3)]
			if end {
				// sent by the client: its last-stream-id is about streams the *server* initiated; the client's
				// own calls go on
				c.handleFrame(&http2.GoAwayFrame{FrameHeader: http2.FrameHeader{Type: http2.FrameGoAway}, LastStreamID: last, ErrCode: http2.ErrCodeNo}, true)
				continue
			}
			vAssume(maxID == 0 || last <= maxID) // the last stream id never grows
			maxID = last
			c.handleFrame(&http2.GoAwayFrame{FrameHeader: http2.FrameHeader{Type: http2.FrameGoAway}, LastStreamID: last, ErrCode: http2.ErrCodeNo}, false)
			for k := 0; k < 2; k++ {
				if st[k] == 1 && ids[k] > last {
					st[k] = 2
					wantN[k], wantKind[k], wantResp[k] = 1, 2, respStarted[k]
				}
			}
		}
	}
	// streams cut off by a graceful GOAWAY are held back for a possible retry (H15r); the connection goes away
	// now without one, which releases them
	c.collector.cancel()
	for s := 0; s < 2; s++ {
		cnt := 0
		kindOK, respOK, trlOK := true, true, true
		for k := 0; k < len(rec.names); k++ {
			if k < rec.n && rec.names[k] == vNames[s] {
				cnt++
				if rec.kinds[k] != wantKind[s] {
					kindOK = false
				}
				if rec.resp[k] != wantResp[s] {
					respOK = false
				}
				if rec.trl[k] != wantTrl[s] {
					trlOK = false
				}
			}
		}
		if wantN[s] == 1 && named[s] {
			vAssert(cnt >= 1, "a stream that ended, was reset, or was cut off by GOAWAY yields a completed trace")
			vAssert(cnt <= 1, "no stream yields two traces")
			vAssert(kindOK, "the trace ends the way the stream did (clean end, stream reset, connection shutdown)")
			vAssert(respOK, "the trace has the response exactly if response headers were seen on its stream")
			vAssert(trlOK, "response trailers are attributed to their own stream")
		} else {
			vAssert(cnt == 0, "a stream that is still open (in particular one at or below a GOAWAY's last stream id) has no completed trace yet")
		}
	}
	vAssert(rec.n <= 2, "no other traces")
	for k := 0; k < len(rec.names); k++ {
		vAssert(k >= rec.n || rec.names[k] != "", "a stream without a test name yields no trace")
	}
}

func H15g_q() { h15g(4) }
func H15g_t() { h15g(6) }

// H15d: response-direction DATA on a stream - also before any response HEADERS, which is malformed but must not
// crash - followed by whatever cuts the stream off. x/net's DataFrame cannot be built outside its package: the
// harness does what handleFrame does with one (hands the payload to the stream's response data tracer).
func H15d_q() {
	rec := &vTraceRec{}
	c := &tracingHTTP2Conn{isServer: vBool("isServer"), collector: &http2RetryCollector{collector: rec}}
	fields := []hpack.HeaderField{
		{Name: ":method", Value: "POST"}, {Name: ":scheme", Value: "http"}, {Name: ":authority", Value: "h"},
		{Name: ":path", Value: "/svc/M"}, {Name: "x-test-case-name", Value: vNames[0]},
	}
	vAssume(c.isServer) // (the client side of newBuilder uses httptrace: outside the encoder's reach)
	c.handleFrame(vHeaders(1, false, fields), true)
	respStarted := vBool("response")
	if respStarted {
		c.handleFrame(vHeaders(1, false, []hpack.HeaderField{{Name: ":status", Value: "200"}, {Name: "content-type", Value: "application/proto"}}), false)
	}
	if hs := c.getExistingStreamLocked(1); hs != nil {
		hs.responseTracer.trace([]byte{1, 2, 3})
	}
	switch vInt("cut", 0, 2) {
	case 0:
		c.handleFrame(&http2.GoAwayFrame{FrameHeader: http2.FrameHeader{Type: http2.FrameGoAway}, LastStreamID: 0, ErrCode: http2.ErrCodeProtocol}, false)
	case 1:
		c.cancelAll(errVerifConn)
	default:
		c.handleFrame(&http2.RSTStreamFrame{FrameHeader: http2.FrameHeader{Type: http2.FrameRSTStream, StreamID: 1}, ErrCode: http2.ErrCodeCancel}, false)
	}
	c.collector.cancel()
	vAssert(rec.n == 1 && rec.names[0] == vNames[0] && rec.kinds[0] != 0, "the cut-off stream yields exactly one trace, ending with the error that cut it off")
}
