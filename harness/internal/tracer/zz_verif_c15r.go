//go:build verif

package tracer

import (
	"time"

	"golang.org/x/net/http2"
)

// C15 (last clause): "a stream refused and retried yields the trace of the retry" - the retry collector that
// sits between the HTTP/2 connection tracer and the real collector.

type vRecCollector struct {
	n     int
	names [8]string
	ids   [8]uint32
}

func (c *vRecCollector) Complete(t Trace) {
	if c.n < len(c.ids) {
		c.names[c.n] = t.TestName
		if se, ok := t.Err.(http2.StreamError); ok {
			c.ids[c.n] = se.StreamID
		}
	}
	c.n++
}

// The retry timer: symbolically a dummy (its firing is an operation of the harness: timesUp is what the
// callback calls); natively the real 3 s timer is armed and never fires within the replay.
//
//verif:replace time.AfterFunc vModelAfterFunc
func vModelAfterFunc(d time.Duration, f func()) *time.Timer { return &time.Timer{} }

//verif:replace (*time.Timer).Stop vModelTimerStop
func vModelTimerStop(t *time.Timer) bool { return true }

var vNames = [2]string{"case/a", "case/b"}

// h15r: any well-formed history of <=N operations on two test names: a stream starts (newAttempt), completes
// once - refused (retryable) or finally -, the retry timer of a refused stream fires, the connection dies
// (cancel). Every final completion is delivered at once; a refused one is delivered exactly when no retry
// starts before its timer fires or the connection dies; nothing is delivered twice.
func h15r(N int) {
	rec := &vRecCollector{}
	h := &http2RetryCollector{collector: rec}
	var open [2]bool
	var waiting [2]uint32
	var want [9]bool     // want[id]: the trace of operation id-1 must be delivered
	var wantName [9]int
	for i := 0; i < N; i++ {
		op := vIntAt("op", i, N, 0, 4)
		n := vIntAt("name", i, N, 0, 1)
		id := uint32(i + 1)
		switch op {
		case 0: // a stream carrying this test name starts
			vAssume(!open[n])
			open[n] = true
			waiting[n] = 0
			h.newAttempt(vNames[n])
		case 1: // it is refused by the peer
			vAssume(open[n])
			open[n] = false
			waiting[n] = id
			wantName[id] = n
			h.Complete(Trace{TestName: vNames[n], Err: http2.StreamError{StreamID: id, Code: http2.ErrCodeRefusedStream}})
		case 2: // it completes for good (here: with a non-retryable stream error that carries the marker)
			vAssume(open[n])
			open[n] = false
			want[id] = true
			wantName[id] = n
			h.Complete(Trace{TestName: vNames[n], Err: http2.StreamError{StreamID: id, Code: http2.ErrCodeCancel}})
		case 3: // the retry timer of the refused stream fires
			vAssume(waiting[n] != 0)
			want[waiting[n]] = true
			waiting[n] = 0
			h.timesUp(vNames[n])
		case 4: // the connection is torn down
			for k := 0; k < 2; k++ {
				if waiting[k] != 0 {
					want[waiting[k]] = true
					waiting[k] = 0
				}
			}
			h.cancel()
		}
	}
	// compare as multisets keyed by the marker
	for id := 1; id <= N; id++ {
		cnt := 0
		nameOK := true
		for k := 0; k < len(rec.ids); k++ {
			if k < rec.n && rec.ids[k] == uint32(id) {
				cnt++
				if rec.names[k] != vNames[wantName[id]] {
					nameOK = false
				}
			}
		}
		if want[id] {
			vAssert(cnt >= 1, "a final completion, and a refused one that is not retried before its timer fires or the connection dies, reaches the collector (a retried stream yields the trace of the retry)")
			vAssert(cnt <= 1, "no trace is delivered twice")
			vAssert(nameOK, "the delivered trace carries its own test name")
		} else {
			vAssert(cnt == 0, "a refused attempt that was retried (or is still waiting) is not delivered")
		}
	}
}

func H15r_q() { h15r(5) }
func H15r_t() { h15r(7) }
