//go:build verif

package referenceclient

import (
	"context"
	"encoding/base64"
	"encoding/json"
	"errors"
	"net/http"
	"strconv"

	"connectrpc.com/conformance/internal"
	"connectrpc.com/conformance/internal/grpcutil"
	"connectrpc.com/conformance/internal/tracer"
	"google.golang.org/genproto/googleapis/rpc/status"
	"google.golang.org/protobuf/proto"
	"google.golang.org/protobuf/types/known/anypb"
)

var errVerifTrace = errors.New("verif: trace error")

// C13: the reference client's wire checks accept well-formed gRPC / gRPC-Web status metadata, flag the named
// malformations, and never crash on arbitrary bytes (non-JSON examiners).

type vCountPrinter struct{ n int }

func (p *vCountPrinter) Printf(msg string, args ...any)               { p.n++ }
func (p *vCountPrinter) PrefixPrintf(prefix, msg string, args ...any) { p.n++ }

// H13a: what the spec-conformant encoder (also used by the reference server) emits passes the status checks,
// for every message and every error status; un-escaped bytes and broken escapes are flagged.
func h13a(S int) {
	msg := vString("msg", S)
	code := vInt("code", 1, 16)
	enc := grpcutil.PercentEncodeMessage(msg)
	p := &vCountPrinter{}
	checkGRPCStatus(http.Header{"Grpc-Status": []string{strconv.Itoa(code)}, "Grpc-Message": []string{enc}}, p)
	vAssert(p.n == 0, "no feedback for a grpc-message produced by the spec-conformant encoder, for any message and status")
	// malformations: the raw message is acceptable only if no byte needs escaping and every '%' starts an escape
	p2 := &vCountPrinter{}
	checkGRPCStatus(http.Header{"Grpc-Status": []string{strconv.Itoa(code)}, "Grpc-Message": []string{msg}}, p2)
	needs := false
	for i := 0; i < len(msg); i++ {
		if msg[i] < 0x20 || msg[i] > 0x7e {
			needs = true
		}
	}
	if needs {
		vAssert(p2.n > 0, "a grpc-message with a byte outside printable ASCII is flagged")
	}
	if len(msg) > 0 && msg[len(msg)-1] == '%' {
		vAssert(p2.n > 0, "an incomplete percent-escape at the end is flagged")
	}
}

func H13a_q() { h13a(3) }

// H13b: HTTP field-name / field-value validators equal the RFC 7230 tables, byte by byte.
func H13b_q() {
	s := vString("s", 2)
	isTok := func(c byte) bool {
		if c >= '0' && c <= '9' || c >= 'a' && c <= 'z' || c >= 'A' && c <= 'Z' {
			return true
		}
		const tchar = "!#$%&'*+-.^_`|~"
		for i := 0; i < len(tchar); i++ {
			if tchar[i] == c {
				return true
			}
		}
		return false
	}
	nameOK, valOK := len(s) > 0, true // field-name = token = 1*tchar: at least one character
	for i := 0; i < len(s); i++ {
		if !isTok(s[i]) {
			nameOK = false
		}
		// field-content: VCHAR / obs-text / SP / HTAB
		if !(s[i] == '\t' || (s[i] >= 0x20 && s[i] != 0x7f)) {
			valOK = false
		}
	}
	vAssert(isValidHTTPFieldName(s) == nameOK, "field name is valid iff it is non-empty and every byte is an RFC 7230 token character")
	vAssert(isValidHTTPFieldValue(s) == valOK, "field value is valid iff every byte is visible, space, tab or obs-text")
}

// H13c: gRPC-Web trailer block: arbitrary bytes never crash the examiner. Case split on the length and on which
// positions hold LF (the line structure); every other byte is symbolic over {a, A, colon, space, CR}.
func h13c(S int) {
	n := vInt("rawlen", 0, S)
	b := make([]byte, n)
	for i := 0; i < n; i++ {
		if vIntAt("lf", i, 6, 0, 1) == 1 {
			b[i] = '\n'
		} else {
			b[i] = vByteOfAt("c", i, 6, "aA: \r")
		}
	}
	for i := n; i < S; i++ {
		vSkipCase(vIntAt("lf", i, 6, 0, 1) == 1) // positions beyond the length are irrelevant: one representative
	}
	p := &vCountPrinter{}
	h := examineGRPCEndStream(string(b), p) // obligation: no reachable panic
	vAssert(h != nil, "a header map is always returned")
}

func H13c_q() { h13c(5) }
func H13c_t() { h13c(6) }

// H13d: one well-formed line gives no feedback and the right map; each named malformation is flagged.
func H13d_q() {
	k := vInt("k", 0, 1)
	keys := [2]string{"a", "b-c"}
	v := vStringOf("v", 2, "xy ")
	vAssume(len(v) == 0 || (v[0] != ' ' && v[len(v)-1] != ' '))
	line := keys[k] + ": " + v + "\r\n"
	p2 := &vCountPrinter{}
	h := examineGRPCEndStream(line, p2)
	vAssert(p2.n == 0, "a well-formed trailer block yields no feedback")
	canon := [2]string{"A", "B-C"}
	got := h[canon[k]]
	vAssert(len(h) == 1 && len(got) == 1 && got[0] == v, "the parsed trailers are the given key (canonicalised) and value")
	p3 := &vCountPrinter{}
	examineGRPCEndStream(keys[k]+": "+v+"\n", p3)
	vAssert(p3.n > 0, "LF-only line endings are flagged")
	p4 := &vCountPrinter{}
	examineGRPCEndStream(keys[k]+": "+v, p4)
	vAssert(p4.n > 0, "a missing final CRLF is flagged")
	p5 := &vCountPrinter{}
	examineGRPCEndStream("A: "+v+"\r\n", p5)
	vAssert(p5.n > 0, "an upper-case trailer key is flagged")
	p6 := &vCountPrinter{}
	examineGRPCEndStream(keys[k]+v+"\r\n", p6)
	vAssert(p6.n > 0, "a line without a colon is flagged")
	p7 := &vCountPrinter{}
	examineGRPCEndStream(line+"\r\n", p7)
	vAssert(p7.n > 0, "an extra blank line is flagged")
}

// ---- H13e: which examiner sees which part of the response (examineWireDetails' dispatch) ----
//
// The four examiners are replaced by recorders (their own behaviour is the subject of H13a-d); the dispatch on
// content type, status, end-stream event, trailers-only shape and the "HTTP trailers outside gRPC" check run
// for real. The trace is installed with the real withWireCapture / setWireTrace.

type vDispatchRec struct {
	connErr, connEnd, grpcEnd, status int
	connErrBody, connEndBody, grpcEndBody string
	statusOn                              string // which header set the status check ran on
}

var vRec vDispatchRec

// (replaces examineConnectError for H13e only; see the harness registry)
func vModelExamineConnectError(errJSON json.RawMessage, printer internal.Printer) {
	vRec.connErr++
	vRec.connErrBody = string(errJSON)
}

// (replaces examineConnectEndStream for H13e only; see the harness registry)
func vModelExamineConnectEndStream(endStreamJSON json.RawMessage, printer internal.Printer) {
	vRec.connEnd++
	vRec.connEndBody = string(endStreamJSON)
}

// (replaces examineGRPCEndStream for H13e only; see the harness registry)
func vModelExamineGRPCEndStream(endStream string, printer internal.Printer) http.Header {
	vRec.grpcEnd++
	vRec.grpcEndBody = endStream
	return http.Header{"From-End-Stream": []string{"1"}}
}

// (replaces checkGRPCStatus for H13e only; see the harness registry)
func vModelCheckGRPCStatus(headers http.Header, printer internal.Printer) {
	vRec.status++
	switch {
	case len(headers["From-End-Stream"]) > 0:
		vRec.statusOn = "end-stream"
	case len(headers["Content-Type"]) > 0:
		vRec.statusOn = "headers"
	case len(headers["X-T"]) > 0:
		vRec.statusOn = "trailers"
	default:
		vRec.statusOn = "?"
	}
}

var vContentTypes = [9]string{
	"application/json", "application/proto", "application/connect+proto", "application/connect+json",
	"application/grpc-web", "application/grpc-web+proto", "application/grpc", "application/grpc+proto", "text/plain",
}

func H13e_q() {
	ct := vInt("ct", 0, 8)
	status := 200
	if vBool("status400") {
		status = 400
	}
	hasTrailer := vBool("trailer")
	hasData := vBool("data")
	hasEnd := vBool("end")
	hasErr := vBool("err")

	// contents are well-formed for the examiner that ought to see them, so that natively (real examiners) any
	// feedback other than the trailer rule's reveals a wrong dispatch
	const errBody = `{"code":"internal"}`
	endContent := "{}"
	if ct == 4 || ct == 5 {
		endContent = "grpc-status: 0\r\n"
	}
	resp := &http.Response{StatusCode: status, Header: http.Header{"Content-Type": []string{vContentTypes[ct]}, "Grpc-Status": []string{"0"}}}
	if hasTrailer {
		resp.Trailer = http.Header{"X-T": []string{"v"}, "Grpc-Status": []string{"0"}}
	}
	trace := tracer.Trace{Response: resp}
	if hasErr {
		trace.Err = errVerifTrace
	}
	if hasData {
		trace.Events = append(trace.Events, &tracer.ResponseBodyData{Len: 1})
	}
	if hasEnd {
		trace.Events = append(trace.Events, &tracer.ResponseBodyEndStream{Content: endContent})
	}
	ctx := withWireCapture(context.Background())
	wrapper, _ := ctx.Value(wireCtxKey{}).(*wireWrapper)
	wrapper.buf.WriteString(errBody)
	setWireTrace(ctx, trace)

	p := &vCountPrinter{}
	vRec = vDispatchRec{}
	code, ok := examineWireDetails(ctx, p)
	vAssert(ok && code == status, "a completed trace with a response reports the response's status code")
	if vNative() {
		// natively the real examiners ran and print through p; on these well-formed contents they are silent
		// when handed the right part of the response, so the count is that of the trailer rule alone
		want := 0
		if hasTrailer && ct != 6 && ct != 7 {
			want = 1
		}
		vAssert(p.n == want, "natively: no feedback except for HTTP trailers outside gRPC")
		return
	}

	isJSONErr := ct == 0 && status != 200
	isConnectStream := ct == 2 || ct == 3
	isGRPCWeb := ct == 4 || ct == 5
	isGRPC := ct == 6 || ct == 7
	trailersOnly := !hasErr && !hasTrailer && !hasData

	vAssert((vRec.connErr == 1) == isJSONErr && vRec.connErr <= 1, "the Connect error examiner runs exactly for a unary JSON error")
	if isJSONErr {
		vAssert(vRec.connErrBody == errBody, "the Connect error examiner sees the captured response body")
	}
	vAssert((vRec.connEnd == 1) == (isConnectStream && hasEnd) && vRec.connEnd <= 1, "the Connect end-stream examiner runs exactly for a Connect stream that has an end-stream message")
	if isConnectStream && hasEnd {
		vAssert(vRec.connEndBody == endContent, "the Connect end-stream examiner sees the end-stream content")
	}
	vAssert((vRec.grpcEnd == 1) == (isGRPCWeb && hasEnd) && vRec.grpcEnd <= 1, "the gRPC-Web trailer examiner runs exactly for a gRPC-Web response that has an end-stream message")
	wantStatus := ""
	switch {
	case isGRPCWeb && hasEnd:
		wantStatus = "end-stream"
	case isGRPCWeb && trailersOnly:
		wantStatus = "headers"
	case isGRPC && trailersOnly:
		wantStatus = "headers"
	case isGRPC && hasTrailer:
		wantStatus = "trailers"
	}
	vAssert((vRec.status == 1) == (wantStatus != "") && vRec.status <= 1, "the gRPC status check runs once where gRPC status metadata exists")
	if wantStatus != "" && vRec.status == 1 {
		vAssert(vRec.statusOn == wantStatus, "the gRPC status check reads the in-body trailers, the trailers-only headers, or the HTTP trailers, as the response shape dictates")
	}
	vAssert((p.n == 1) == (!isGRPC && hasTrailer) && p.n <= 1, "HTTP trailers are flagged exactly when the protocol is not gRPC")
}

// ---- H13f: grpc-status / grpc-message / grpc-status-details-bin must tell the same story ----
//
// base64 and protobuf decoding are contract stubs for this harness only (registry: Only): the "encoded" status is
// the byte string [code, number of details, message...]. Natively the real google.rpc.Status is marshalled and
// base64-encoded without padding, as the reference server does.

func vModelB64DecodeString(enc *base64.Encoding, s string) ([]byte, error) { return []byte(s), nil }

func vModelUnmarshalStatus(b []byte, m proto.Message) error {
	st := m.(*status.Status)
	if len(b) < 2 {
		return errVerifTrace
	}
	st.Code = int32(b[0])
	for i := 0; i < int(b[1]); i++ {
		st.Details = append(st.Details, &anypb.Any{TypeUrl: "t"})
	}
	st.Message = string(b[2:])
	return nil
}

func H13f_q() {
	code1 := vInt("code1", 0, 16)
	code2 := vInt("code2", 0, 16)
	nd := vInt("ndetails", 0, 1)
	hasMsg := vBool("hasMsg")
	msg1 := vString("m1", 2)
	msg2 := vString("m2", 2)
	for i := 0; i < len(msg1); i++ {
		vAssume(msg1[i] < 0x80) // ASCII: non-ASCII messages are the subject of H13a
	}
	for i := 0; i < len(msg2); i++ {
		vAssume(msg2[i] < 0x80)
	}
	// grpc-status is 1*DIGIT: a sign makes it malformed even where the number would be in range
	statusText := strconv.Itoa(code1)
	sign := vInt("sign", 0, 2)
	switch sign {
	case 1:
		statusText = "+" + statusText
	case 2:
		statusText = "-" + statusText
	}
	h := http.Header{"Grpc-Status": []string{statusText}}
	enc := grpcutil.PercentEncodeMessage(msg1)
	if hasMsg {
		h["Grpc-Message"] = []string{enc}
	}
	if vNative() {
		st := &status.Status{Code: int32(code2), Message: msg2}
		for i := 0; i < nd; i++ {
			st.Details = append(st.Details, &anypb.Any{TypeUrl: "type.googleapis.com/google.protobuf.Empty"})
		}
		b, err := proto.Marshal(st)
		if err != nil {
			panic(err)
		}
		h["Grpc-Status-Details-Bin"] = []string{base64.RawStdEncoding.EncodeToString(b)}
	} else {
		h["Grpc-Status-Details-Bin"] = []string{string([]byte{byte(code2), byte(nd)}) + msg2}
	}
	p := &vCountPrinter{}
	checkGRPCStatus(h, p)
	bad := sign != 0 || code2 != code1 || (code2 == 0 && nd > 0) || (hasMsg && msg2 != msg1) || (hasMsg && code1 == 0 && enc != "")
	vAssert((p.n == 0) == !bad, "status trailers are accepted exactly when grpc-status is an unsigned number and grpc-status, grpc-message and grpc-status-details-bin agree (and an OK status carries neither message nor details)")
}

// ---- H13g: one call, several HTTP operations (a redirect that the HTTP client follows, a retry) ----
//
// Every traced HTTP operation of a call reports its trace to the call's wire wrapper; whatever the server sends
// (a 3xx with a Location header included) must not crash the examiner, and the details of the call stay available.
func H13g_q() {
	n := vInt("operations", 1, 3)
	ctx := withWireCapture(context.Background())
	req := (&http.Request{Header: http.Header{}}).WithContext(ctx)
	wt := &wireTracer{}
	status := [3]int{307, 308, 200}
	for i := 0; i < 3; i++ {
		if i < n {
			wt.Complete(tracer.Trace{Request: req, Response: &http.Response{StatusCode: status[i], Header: http.Header{"Content-Type": []string{"text/plain"}}}}) // obligation: no reachable panic
		}
	}
	p := &vCountPrinter{}
	code, ok := examineWireDetails(ctx, p)
	last := status[0]
	for i := 1; i < 3; i++ {
		if i < n {
			last = status[i]
		}
	}
	vAssert(ok && (code == status[0] || code == last), "the wire details of one of the call's HTTP operations (the first or the last) are reported")
	vAssert(p.n == 0, "no feedback for plain responses without trailers")
}
