//go:build verif

package referenceserver

import (
	"context"
	"net/http"

	"connectrpc.com/connect"

	conformancev1 "connectrpc.com/conformance/internal/gen/proto/go/connectrpc/conformance/v1"
)

// C17 (server side): once a raw response is accepted nothing the handler does reaches the wire, and once anything
// has reached the wire a raw response is refused; finish() sends exactly the prescribed status, headers and body.

type vRespWriter struct {
	hdr      http.Header
	writes   int
	bytes    int
	body     [16]byte
	status   int
	headers  int // WriteHeader calls
	flushes  int
}

func (w *vRespWriter) Header() http.Header { return w.hdr }
func (w *vRespWriter) Write(p []byte) (int, error) {
	w.writes++
	for j := 0; j < len(p); j++ {
		if w.bytes < len(w.body) {
			w.body[w.bytes] = p[j]
		}
		w.bytes++
	}
	return len(p), nil
}
func (w *vRespWriter) WriteHeader(code int) { w.headers++; w.status = code }
func (w *vRespWriter) Flush()               { w.flushes++ }

// H17c: arbitration between handler output and a raw response, for every sequence of <=K operations.
func h17c(K int) {
	under := &vRespWriter{hdr: http.Header{}}
	r := &rawResponseWriter{respWriter: under}
	raw := &conformancev1.RawHTTPResponse{StatusCode: 418}
	accepted := false
	reached := false
	for i := 0; i < K; i++ {
		before := under.writes + under.headers + under.flushes
		switch vIntAt("op", i, 6, 0, 3) {
		case 0:
			r.Write([]byte{1})
		case 1:
			r.WriteHeader(200)
		case 2:
			r.Flush()
		default:
			ok := r.setRawResponse(raw)
			vAssert(ok == !reached, "a raw response is accepted iff nothing has been sent to the real writer yet")
			if ok {
				accepted = true
			}
		}
		after := under.writes + under.headers + under.flushes
		if after != before {
			reached = true
			vAssert(!accepted, "once a raw response is accepted, nothing the handler does reaches the real writer")
		}
	}
	vAssert((r.rawResponse() != nil) == accepted, "the raw response to finish with is the accepted one")
}

func H17c_q() { h17c(4) }
func H17c_t() { h17c(6) }

// H17d: finish() with a unary (identity) body.
func H17d_q() {
	under := &vRespWriter{hdr: http.Header{"X-Cors": []string{"keep"}}}
	snapshot := http.Header{"X-Cors": []string{"keep"}}
	r := &rawResponseWriter{respWriter: under}
	status := vInt("status", 0, 2) // 0: unset
	codes := [3]int32{0, 201, 503}
	nb := vInt("nbody", 0, 2)
	body := make([]byte, nb)
	for j := 0; j < nb; j++ {
		body[j] = vByteAt("body", j, 2)
	}
	raw := &conformancev1.RawHTTPResponse{
		StatusCode: uint32(codes[status]),
		Headers:    []*conformancev1.Header{{Name: "X-Raw", Value: []string{"r1", "r2"}}},
		Trailers:   []*conformancev1.Header{{Name: "X-Tr", Value: []string{"t1"}}},
		Body:       &conformancev1.RawHTTPResponse_Unary{Unary: &conformancev1.MessageContents{Data: &conformancev1.MessageContents_Binary{Binary: body}}},
	}
	vAssume(r.setRawResponse(raw))
	// the handler sets a header and tries to write; neither may survive
	r.Header()["X-Handler"] = []string{"yes"}
	// ... and may also touch a header that earlier middleware had set (connect-go appends to Vary on GET requests)
	switch vInt("touch", 0, 2) {
	case 1:
		r.Header()["X-Cors"] = append(r.Header()["X-Cors"], "handler-added")
	case 2:
		r.Header()["X-Cors"] = []string{"handler-replaced"}
	}
	r.Write([]byte{9})
	r.finish(snapshot)
	want := 200
	if status != 0 {
		want = int(codes[status])
	}
	vAssert(under.headers == 1 && under.status == want, "the given status is sent (200 if unset), once")
	_, handlerHdr := under.hdr["X-Handler"]
	vAssert(!handlerHdr, "no handler-set header survives")
	c := under.hdr["X-Cors"]
	vAssert(len(c) == 1 && c[0] == "keep", "headers set by earlier middleware are restored to what they were before the handler ran")
	rv := under.hdr["X-Raw"]
	vAssert(len(rv) == 2 && rv[0] == "r1" && rv[1] == "r2", "every raw header value is sent, in order")
	tr := under.hdr["Trailer"]
	vAssert(len(tr) == 1 && tr[0] == "X-Tr", "trailers are pre-declared")
	tv := under.hdr["Trailer:X-Tr"]
	vAssert(len(tv) == 1 && tv[0] == "t1", "trailers are sent with the trailer prefix")
	vAssert(under.bytes == nb, "exactly the given body is sent and no handler body bytes")
	for j := 0; j < 2; j++ {
		if j < nb {
			vAssert(under.body[j] == body[j], "body bytes are the given ones")
		}
	}
}

// ---- H17u: which unary requests can prescribe a raw response ----
//
// Both unary RPCs of the service (Unary and IdempotentUnary) carry a UnaryResponseDefinition and with it a
// possible raw_response; the interceptor must hand it to the response writer, and keep the handler from running,
// for either.
func H17u_q() {
	under := &vRespWriter{hdr: http.Header{}}
	w := &rawResponseWriter{respWriter: under}
	ctx := context.WithValue(context.Background(), rawResponseKey{}, w)
	hasRaw := vBool("hasRaw")
	def := &conformancev1.UnaryResponseDefinition{}
	if hasRaw {
		def.RawResponse = &conformancev1.RawHTTPResponse{StatusCode: 418}
	}
	var req connect.AnyRequest
	if vBool("idempotent") {
		req = connect.NewRequest(&conformancev1.IdempotentUnaryRequest{ResponseDefinition: def})
	} else {
		req = connect.NewRequest(&conformancev1.UnaryRequest{ResponseDefinition: def})
	}
	called := 0
	next := func(ctx context.Context, r connect.AnyRequest) (connect.AnyResponse, error) {
		called++
		return nil, nil
	}
	_, err := rawResponseRecorder{}.WrapUnary(next)(ctx, req)
	if hasRaw {
		vAssert(called == 0 && err != nil, "a prescribed raw response keeps the handler from running")
		vAssert(w.rawResponse() == def.RawResponse, "the prescribed raw response is what the response writer will send, for Unary and IdempotentUnary alike")
	} else {
		vAssert(called == 1 && err == nil && w.rawResponse() == nil, "without a raw response the handler runs as usual")
	}
}
