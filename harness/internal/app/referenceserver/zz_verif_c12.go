//go:build verif

package referenceserver

import (
	"context"
	"crypto/tls"
	"crypto/x509"
	"crypto/x509/pkix"
	"io"
	"net/http"
	"net/url"
	"strconv"
	"time"

	conformancev1 "connectrpc.com/conformance/internal/gen/proto/go/connectrpc/conformance/v1"
	"connectrpc.com/connect"
	"google.golang.org/protobuf/reflect/protoreflect"
)

// C12: the reference server flags exactly the requests that deviate from the test setup.

// ---- recording printer ----
type vRecPrinter struct {
	n       int
	prefix  string
	badName bool
}

func (p *vRecPrinter) Printf(msg string, args ...any) { p.n++ }
func (p *vRecPrinter) PrefixPrintf(prefix, msg string, args ...any) {
	p.n++
	if prefix != "the/test" && prefix != "another/test" {
		p.badName = true
	}
}

// ---- enum descriptors: only "is this number a declared value" is used ----
type vEnumDesc struct {
	protoreflect.EnumDescriptor
	max int32
}

func (d *vEnumDesc) Values() protoreflect.EnumValueDescriptors { return &vEnumVals{max: d.max} }

type vEnumVals struct {
	protoreflect.EnumValueDescriptors
	max int32
}

type vEnumVal struct{ protoreflect.EnumValueDescriptor }

func (v *vEnumVals) ByNumber(n protoreflect.EnumNumber) protoreflect.EnumValueDescriptor {
	if int32(n) < 0 || int32(n) > v.max {
		return nil
	}
	return &vEnumVal{}
}

//verif:replace (connectrpc.com/conformance/internal/gen/proto/go/connectrpc/conformance/v1.HTTPVersion).Descriptor vModelDescHTTPVersion
func vModelDescHTTPVersion(x conformancev1.HTTPVersion) protoreflect.EnumDescriptor { return &vEnumDesc{max: 3} }

//verif:replace (connectrpc.com/conformance/internal/gen/proto/go/connectrpc/conformance/v1.Protocol).Descriptor vModelDescProtocol
func vModelDescProtocol(x conformancev1.Protocol) protoreflect.EnumDescriptor { return &vEnumDesc{max: 3} }

//verif:replace (connectrpc.com/conformance/internal/gen/proto/go/connectrpc/conformance/v1.Codec).Descriptor vModelDescCodec
func vModelDescCodec(x conformancev1.Codec) protoreflect.EnumDescriptor { return &vEnumDesc{max: 3} }

//verif:replace (connectrpc.com/conformance/internal/gen/proto/go/connectrpc/conformance/v1.Compression).Descriptor vModelDescCompression
func vModelDescCompression(x conformancev1.Compression) protoreflect.EnumDescriptor { return &vEnumDesc{max: 6} }

var vQuery url.Values

//verif:replace (*net/url.URL).Query vModelURLQuery
func vModelURLQuery(u *url.URL) url.Values { return vQuery }

type vEmptyBody struct{ hasData bool }

func (b *vEmptyBody) Read(p []byte) (int, error) {
	if b.hasData {
		return 0, nil
	}
	return 0, io.EOF
}
func (b *vEmptyBody) Close() error { return nil }

func vCodecName(c int) string {
	if c == 2 {
		return "json"
	}
	return "proto"
}

func vCompName(c int) string {
	switch c {
	case 2:
		return "gzip"
	case 3:
		return "br"
	case 4:
		return "zstd"
	case 5:
		return "deflate"
	case 6:
		return "snappy"
	}
	return "identity"
}

// vClientRequest builds the request a conformant client sends for the given (actual) setup.
func vClientRequest(version, protocol, codec, comp int, get, stream, useTLS bool, cert int, bare, omitIdentity bool) *http.Request {
	h := http.Header{}
	req := &http.Request{Method: "POST", ProtoMajor: version, Header: h, URL: &url.URL{Path: "/svc/M"}, Body: &vEmptyBody{}}
	vQuery = url.Values{}
	if get {
		req.Method = "GET"
		vQuery["encoding"] = []string{vCodecName(codec)}
		if !(comp == 1 && omitIdentity) {
			vQuery["compression"] = []string{vCompName(comp)}
		}
		vQuery["connect"] = []string{"v1"}
	} else {
		encHeader := ""
		switch protocol {
		case 1:
			if stream {
				h["Content-Type"] = []string{"application/connect+" + vCodecName(codec)}
				encHeader = "Connect-Content-Encoding"
			} else {
				h["Content-Type"] = []string{"application/" + vCodecName(codec)}
				encHeader = "Content-Encoding"
			}
		case 2:
			if bare && codec == 1 {
				h["Content-Type"] = []string{"application/grpc"}
			} else {
				h["Content-Type"] = []string{"application/grpc+" + vCodecName(codec)}
			}
			h["Te"] = []string{"trailers"}
			encHeader = "Grpc-Encoding"
		default:
			if bare && codec == 1 {
				h["Content-Type"] = []string{"application/grpc-web"}
			} else {
				h["Content-Type"] = []string{"application/grpc-web+" + vCodecName(codec)}
			}
			encHeader = "Grpc-Encoding"
		}
		if !(comp == 1 && omitIdentity) {
			h[encHeader] = []string{vCompName(comp)}
		}
	}
	if useTLS {
		st := &tls.ConnectionState{}
		if cert == 1 {
			st.PeerCertificates = []*x509.Certificate{{Subject: pkix.Name{CommonName: "client-a"}}}
		} else if cert == 2 {
			st.PeerCertificates = []*x509.Certificate{{Subject: pkix.Name{CommonName: "client-b"}}}
		}
		req.TLS = st
	}
	return req
}

func vCertName(c int) string {
	switch c {
	case 1:
		return "client-a"
	case 2:
		return "client-b"
	}
	return ""
}

// H12b: each check reports nothing iff its aspect matches, and names the test case when it reports.
func H12b_q() {
	// actual setup (what the client really does)
	aVer, aProto, aCodec, aComp := vInt("a.ver", 1, 3), vInt("a.proto", 1, 3), vInt("a.codec", 1, 2), vInt("a.comp", 1, 6)
	aGet := vBool("a.get")
	aStream := vBool("a.stream")
	aTLS, aCert := vBool("a.tls"), vInt("a.cert", 0, 2)
	vAssume(!aGet || (aProto == 1 && !aStream)) // GET exists only for Connect unary
	vAssume(aTLS || aCert == 0)
	bare, omitIdentity := vBool("bare"), vBool("omitIdentity")
	// expected setup (what the runner announced)
	eVer, eProto, eCodec, eComp := vInt("e.ver", 1, 3), vInt("e.proto", 1, 3), vInt("e.codec", 1, 2), vInt("e.comp", 1, 6)
	eTLS, eCert := vBool("e.tls"), vInt("e.cert", 0, 2)
	vAssume(eTLS || eCert == 0)

	req := vClientRequest(aVer, aProto, aCodec, aComp, aGet, aStream, aTLS, aCert, bare, omitIdentity)
	if eTLS {
		req.Header["X-Expect-Tls"] = []string{"true"}
	} else {
		req.Header["X-Expect-Tls"] = []string{"false"}
	}
	if eCert != 0 {
		req.Header["X-Expect-Client-Cert"] = []string{vCertName(eCert)}
	}
	rec := &vRecPrinter{}
	fb := &feedbackPrinter{p: rec, testCaseName: "the/test"}

	checkHTTPVersion(conformancev1.HTTPVersion(eVer), req, fb)
	vAssert((rec.n == 0) == (eVer == aVer), "HTTP version: feedback iff the version differs")
	rec.n = 0
	checkProtocol(conformancev1.Protocol(eProto), req, fb)
	vAssert((rec.n == 0) == (eProto == aProto), "protocol: feedback iff the protocol differs")
	rec.n = 0
	checkCodec(conformancev1.Codec(eCodec), req, fb)
	vAssert((rec.n == 0) == (eCodec == aCodec), "codec: feedback iff the codec differs")
	rec.n = 0
	checkCompression(conformancev1.Compression(eComp), req, fb)
	vAssert((rec.n == 0) == (eComp == aComp), "compression: feedback iff the compression differs")
	rec.n = 0
	checkTLS(req, fb)
	tlsOK := eTLS == aTLS && (!aTLS || eCert == aCert)
	vAssert((rec.n == 0) == tlsOK, "TLS: feedback iff TLS use or the client certificate differs")
	vAssert(!rec.badName, "feedback names the test case")
}

// H12a: timeout headers. Case split on protocol, number of digits and unit; the digits are symbolic.
func H12a_q() {
	grpc := vInt("grpc", 0, 1) == 1
	nd := vInt("nd", 1, 11)
	unitIdx := vInt("unit", 0, 6)
	vSkipCase(!grpc && unitIdx != 0)
	vSkipCase(grpc && nd > 9)
	units := "HMSmunx"
	unitNs := [7]int64{3600e9, 60e9, 1e9, 1e6, 1e3, 1, 0}
	val := make([]byte, 0, 12)
	v := int64(0)
	// the grammars are "1*10DIGIT" / "1*8DIGIT Unit": digits are counted (leading zeros included), a sign is no digit
	lead := vInt("lead", 0, 2)
	switch lead {
	case 1:
		val = append(val, '+')
	case 2:
		val = append(val, '-')
	}
	digits := make([]byte, 0, 12)
	lz := vInt("lz", 0, 1) == 1 // case split: a redundant leading zero (it counts as a digit)
	vSkipCase(lz && nd == 1)
	for i := 0; i < nd; i++ {
		var d int
		switch {
		case i == 0 && lz:
			d = 0
		case i == 0 && nd > 1:
			d = vIntAt("digit", i, 11, 1, 9)
		default:
			d = vIntAt("digit", i, 11, 0, 9)
		}
		val = append(val, byte('0'+d))
		digits = append(digits, byte('0'+d))
	}
	// the numeric value of the digits, by the standard library (trusted; the code under test is extractTimeout)
	v, _ = strconv.ParseInt(string(digits), 10, 64)
	name := "Connect-Timeout-Ms"
	proto := conformancev1.Protocol_PROTOCOL_CONNECT
	if grpc {
		val = append(val, units[unitIdx])
		name = "Grpc-Timeout"
		if vBool("web") {
			proto = conformancev1.Protocol_PROTOCOL_GRPC_WEB
		} else {
			proto = conformancev1.Protocol_PROTOCOL_GRPC
		}
	}
	h := http.Header{name: []string{string(val)}, "X-Other": []string{"1"}}
	rec := &vRecPrinter{}
	fb := &feedbackPrinter{p: rec, testCaseName: "the/test"}
	timeout, ok := extractTimeout(h, proto, fb)

	_, still := h[name]
	vAssert(!still, "the timeout header is removed so that the server does not enforce it")
	_, other := h["X-Other"]
	vAssert(other, "other headers are untouched")
	var accept bool
	var want int64
	if !grpc {
		accept = nd <= 10 && lead == 0
		want = v * 1e6
	} else {
		accept = nd <= 8 && unitIdx < 6 && lead == 0
		if accept {
			if unitIdx == 0 && v > 2562047 { // only hours can exceed the int64 nanosecond range with <= 8 digits
				want = 9223372036854775807
			} else {
				want = v * unitNs[unitIdx]
			}
		}
	}
	vAssert(ok == accept, "a timeout is accepted exactly when it follows the protocol's grammar (digit limit, known unit)")
	vAssert((rec.n == 0) == accept, "feedback is printed exactly for rejected timeouts")
	if ok && accept {
		vAssert(int64(timeout) == want, "the duration is the exact product, saturating at the maximum on overflow")
	}
}

// ---- the middleware closure: missing name, repeated request, trailers, timeout hand-over ----

type vValueCtx struct {
	context.Context
	key, val any
}

func (c *vValueCtx) Value(k any) any {
	if k == c.key {
		return c.val
	}
	if c.Context == nil {
		return nil
	}
	return c.Context.Value(k)
}

//verif:replace context.WithValue vModelWithValue
func vModelWithValue(parent context.Context, key, val any) context.Context {
	return &vValueCtx{Context: parent, key: key, val: val}
}

type vBaseCtx struct{}

func (vBaseCtx) Deadline() (time.Time, bool) { return time.Time{}, false }
func (vBaseCtx) Done() <-chan struct{}       { return nil }
func (vBaseCtx) Err() error                  { return nil }
func (vBaseCtx) Value(k any) any             { return nil }

var vErrWrites int

//verif:replace connectrpc.com/connect.NewErrorWriter vModelNewErrorWriter
func vModelNewErrorWriter(opts ...connect.HandlerOption) *connect.ErrorWriter { return &connect.ErrorWriter{} }

//verif:replace (*connectrpc.com/connect.ErrorWriter).Write vModelErrorWriterWrite
func vModelErrorWriterWrite(w *connect.ErrorWriter, rw http.ResponseWriter, r *http.Request, err error) error {
	vErrWrites++
	return nil
}

//verif:replace io.Copy vModelIOCopy
func vModelIOCopy(dst io.Writer, src io.Reader) (int64, error) { return 0, nil }

type vHandler struct {
	calls      int
	gotTimeout time.Duration
	hasTimeout bool
	sawHeader  bool
}

// what net/http does when the handler reads the request body to its end: trailers that were not announced in a
// Trailer header are stored in the request object the server created - its Trailer map if it has one, a new map
// otherwise (net/http transfer.go, mergeSetHeader)
var vServerReq *http.Request
var vLateTrailers http.Header

func (h *vHandler) ServeHTTP(w http.ResponseWriter, r *http.Request) {
	if vLateTrailers != nil && vServerReq != nil {
		if vServerReq.Trailer == nil {
			vServerReq.Trailer = vLateTrailers
		} else {
			for k, v := range vLateTrailers {
				vServerReq.Trailer[k] = v
			}
		}
	}
	h.calls++
	h.gotTimeout, h.hasTimeout = timeoutFromContext(r.Context())
	_, h.sawHeader = r.Header["Connect-Timeout-Ms"]
}

type vNullRW struct{ hdr http.Header }

func (w *vNullRW) Header() http.Header         { return w.hdr }
func (w *vNullRW) Write(p []byte) (int, error) { return len(p), nil }
func (w *vNullRW) WriteHeader(int)             {}

func H12c_q() {
	rec := &vRecPrinter{}
	h := &vHandler{}
	mw := referenceServerChecks(h, rec)
	mkReq := func(tag string) *http.Request {
		req := vClientRequest(2, 1, 1, 1, false, false, false, 0, false, false).WithContext(vBaseCtx{})
		req.Header["X-Expect-Http-Version"] = []string{"2"}
		req.Header["X-Expect-Protocol"] = []string{"1"}
		req.Header["X-Expect-Codec"] = []string{"1"}
		req.Header["X-Expect-Compression"] = []string{"1"}
		req.Header["X-Expect-Tls"] = []string{"false"}
		req.Header["X-Expect-Http-Method"] = []string{"POST"}
		return req
	}
	hasName := vBool("hasName")
	hasTimeout := vBool("hasTimeout")
	zeroTimeout := vBool("zeroTimeout")
	wantTimeout := 250 * time.Millisecond
	if zeroTimeout {
		wantTimeout = 0
	}
	hasTrailers := vBool("hasTrailers")
	repeat := vBool("repeat")
	req := mkReq("r1")
	if hasName {
		req.Header["X-Test-Case-Name"] = []string{"the/test"}
	}
	if hasTimeout {
		req.Header["Connect-Timeout-Ms"] = []string{"250"}
		if zeroTimeout {
			req.Header["Connect-Timeout-Ms"] = []string{"0"} // a timeout of zero is a timeout, not an absent one
		}
	}
	vServerReq, vLateTrailers = req, nil
	if hasTrailers {
		if vBool("announced") {
			req.Trailer = http.Header{"X-T": []string{"v"}}
		} else {
			// HTTP/1.1 chunked body whose trailers were not announced: they turn up when the body is read
			vLateTrailers = http.Header{"X-T": []string{"v"}}
		}
	}
	vErrWrites = 0
	if vBool("viaRawResponder") {
		// the way the reference server stacks its middleware: the raw responder sits in front
		rawResponder(mw).ServeHTTP(&vNullRW{hdr: http.Header{}}, req)
	} else {
		mw(&vNullRW{hdr: http.Header{}}, req)
	}
	if !hasName {
		vAssert(h.calls == 0 && vErrWrites == 1, "a request without a test name is rejected outright and the handler is not called")
		return
	}
	vAssert(h.calls == 1, "a named request reaches the handler")
	vAssert((rec.n == 0) == !hasTrailers, "a conformant request gets no feedback; request trailers are flagged")
	vAssert(!rec.badName, "feedback names the test case")
	vAssert(h.hasTimeout == hasTimeout && (!hasTimeout || h.gotTimeout == wantTimeout), "the timeout is handed to the handler through the context as the exact duration (a zero timeout included)")
	vAssert(!h.sawHeader, "the timeout header is removed so that the server does not enforce it")
	if repeat {
		before := rec.n
		req2 := mkReq("r2")
		req2.Header["X-Test-Case-Name"] = []string{"the/test"}
		mw(&vNullRW{hdr: http.Header{}}, req2)
		vAssert(rec.n > before, "a repeated request of the same test is flagged")
		req3 := mkReq("r3")
		req3.Header["X-Test-Case-Name"] = []string{"another/test"}
		before = rec.n
		rec.prefix = ""
		mw(&vNullRW{hdr: http.Header{}}, req3)
		vAssert(rec.n == before, "a first request of a different test is not flagged")
	}
}
