//go:build verif

package connectconformance

import (
	conformancev1 "connectrpc.com/conformance/internal/gen/proto/go/connectrpc/conformance/v1"
	"google.golang.org/protobuf/encoding/protojson"
	"google.golang.org/protobuf/proto"
)

// C06: config expansion equals the declarative feature/include/exclude specification (DESIGN.md Appendix B,
// written from config.proto and docs/configuring_and_running_tests.md).

var vCfg *conformancev1.Config

//verif:replace (buf.build/go/protoyaml.UnmarshalOptions).Unmarshal vModelYamlUnmarshal
func vModelYamlUnmarshal(o interface{}, data []byte, msg proto.Message) error {
	cfg := msg.(*conformancev1.Config)
	cfg.Features = vCfg.Features
	cfg.IncludeCases = vCfg.IncludeCases
	cfg.ExcludeCases = vCfg.ExcludeCases
	return nil
}

func vTri(name string) *bool {
	switch vInt(name, 0, 2) {
	case 1:
		f := false
		return &f
	case 2:
		t := true
		return &t
	}
	return nil
}

func vTriAt(name string, i, n int) *bool {
	switch vIntAt(name, i, n, 0, 2) {
	case 1:
		f := false
		return &f
	case 2:
		t := true
		return &t
	}
	return nil
}

var vNoCerts bool    // supports_tls_client_certs is unset or false (keeps the case set of the set-algebra harness at <= 2x)
var vExactLists bool // every axis list has exactly L entries (keeps the computed sets small for the set-algebra harness)

func vSymFeatures(L int) *conformancev1.Features {
	f := &conformancev1.Features{}
	lo := 0
	if vExactLists {
		lo = L
	}
	n := vInt("nver", lo, L)
	for i := 0; i < n; i++ {
		f.Versions = append(f.Versions, conformancev1.HTTPVersion(vIntAt("ver", i, 3, 1, 3)))
	}
	n = vInt("nproto", lo, L)
	for i := 0; i < n; i++ {
		f.Protocols = append(f.Protocols, conformancev1.Protocol(vIntAt("proto", i, 3, 1, 3)))
	}
	n = vInt("ncodec", lo, L)
	for i := 0; i < n; i++ {
		f.Codecs = append(f.Codecs, conformancev1.Codec(vIntAt("codec", i, 3, 1, 3)))
	}
	n = vInt("ncomp", lo, L)
	for i := 0; i < n; i++ {
		f.Compressions = append(f.Compressions, conformancev1.Compression(vIntAt("comp", i, 3, 1, 6)))
	}
	n = vInt("nstream", lo, L)
	for i := 0; i < n; i++ {
		f.StreamTypes = append(f.StreamTypes, conformancev1.StreamType(vIntAt("stream", i, 3, 1, 5)))
	}
	f.SupportsH2C = vTri("h2c")
	f.SupportsTls = vTri("tls")
	f.SupportsTlsClientCerts = vTri("certs")
	if vNoCerts {
		// bound of the set-algebra harness: client certificates not declared supported (unset or false)
		vAssume(f.SupportsTlsClientCerts == nil || !*f.SupportsTlsClientCerts)
	}
	f.SupportsTrailers = vTri("trailers")
	f.SupportsHalfDuplexBidiOverHttp1 = vTri("halfdup1")
	f.SupportsConnectGet = vTri("get")
	f.SupportsMessageReceiveLimit = vTri("limit")
	return f
}

// ---- reference: resolved features ----

type vF struct {
	ver                                                    []conformancev1.HTTPVersion
	proto                                                  []conformancev1.Protocol
	codec                                                  []conformancev1.Codec
	comp                                                   []conformancev1.Compression
	stream                                                 []conformancev1.StreamType
	h2c, tls, certs, trailers, halfdup1, get, limit, isErr bool
}

func vDefault(p *bool, d bool) bool {
	if p == nil {
		return d
	}
	return *p
}

func vHasVer(l []conformancev1.HTTPVersion, x conformancev1.HTTPVersion) bool {
	for _, e := range l {
		if e == x {
			return true
		}
	}
	return false
}
func vHasProto(l []conformancev1.Protocol, x conformancev1.Protocol) bool {
	for _, e := range l {
		if e == x {
			return true
		}
	}
	return false
}
func vHasCodec(l []conformancev1.Codec, x conformancev1.Codec) bool {
	for _, e := range l {
		if e == x {
			return true
		}
	}
	return false
}
func vHasComp(l []conformancev1.Compression, x conformancev1.Compression) bool {
	for _, e := range l {
		if e == x {
			return true
		}
	}
	return false
}
func vHasStream(l []conformancev1.StreamType, x conformancev1.StreamType) bool {
	for _, e := range l {
		if e == x {
			return true
		}
	}
	return false
}

func specFeatures(in *conformancev1.Features) vF {
	f := vF{
		ver: in.Versions, proto: in.Protocols, codec: in.Codecs, comp: in.Compressions, stream: in.StreamTypes,
		h2c: vDefault(in.SupportsH2C, true), tls: vDefault(in.SupportsTls, true), certs: vDefault(in.SupportsTlsClientCerts, false),
		trailers: vDefault(in.SupportsTrailers, true), halfdup1: vDefault(in.SupportsHalfDuplexBidiOverHttp1, false),
		get: vDefault(in.SupportsConnectGet, true), limit: vDefault(in.SupportsMessageReceiveLimit, true),
	}
	if f.certs && !f.tls {
		f.isErr = true
	}
	if len(f.ver) == 0 {
		if f.tls || f.h2c {
			f.ver = []conformancev1.HTTPVersion{1, 2}
		} else {
			f.ver = []conformancev1.HTTPVersion{1}
		}
	} else if in.SupportsH2C != nil && *in.SupportsH2C && !vHasVer(f.ver, 2) {
		f.isErr = true // H2C explicitly claimed without HTTP/2
	}
	has2, has3 := vHasVer(f.ver, 2), vHasVer(f.ver, 3)
	if has3 && !f.tls {
		f.isErr = true
	}
	if has2 && !f.tls && !f.h2c {
		f.isErr = true
	}
	if vHasProto(f.proto, 2) && (!f.trailers || !has2) {
		f.isErr = true
	}
	if len(f.proto) == 0 {
		if f.trailers && has2 {
			f.proto = []conformancev1.Protocol{1, 2, 3}
		} else {
			f.proto = []conformancev1.Protocol{1, 3}
		}
	}
	if len(f.codec) == 0 {
		f.codec = []conformancev1.Codec{1, 2}
	}
	if len(f.comp) == 0 {
		f.comp = []conformancev1.Compression{1, 2}
	}
	only1 := !has2 && !has3
	if vHasStream(f.stream, 5) && only1 {
		f.isErr = true
	}
	if vHasStream(f.stream, 4) && only1 && !f.halfdup1 {
		f.isErr = true
	}
	if len(f.stream) == 0 {
		if only1 {
			if f.halfdup1 {
				f.stream = []conformancev1.StreamType{1, 2, 3, 4}
			} else {
				f.stream = []conformancev1.StreamType{1, 2, 3}
			}
		} else {
			f.stream = []conformancev1.StreamType{1, 2, 3, 4, 5}
		}
	}
	return f
}

// entry: which fields of a ConfigCase are set
type vEntry struct {
	ver                          conformancev1.HTTPVersion
	proto                        conformancev1.Protocol
	codec                        conformancev1.Codec
	comp                         conformancev1.Compression
	stream                       conformancev1.StreamType
	tls, certs, limit            *bool
}

// specMember: is case c in the set denoted by features f narrowed by entry e (e == nil: the features alone)?
func specMember(f vF, e *vEntry, c configCase) bool {
	okVer, okProto, okCodec, okComp, okStream := vHasVer(f.ver, c.Version), vHasProto(f.proto, c.Protocol), vHasCodec(f.codec, c.Codec), vHasComp(f.comp, c.Compression), vHasStream(f.stream, c.StreamType)
	okTLS := !c.UseTLS || f.tls
	okCerts := !c.UseTLSClientCerts || f.certs
	okLimit := !c.UseMessageReceiveLimit || f.limit
	if e != nil {
		if e.ver != 0 {
			okVer = c.Version == e.ver
		}
		if e.proto != 0 {
			okProto = c.Protocol == e.proto
		}
		if e.codec != 0 {
			okCodec = c.Codec == e.codec
		}
		if e.comp != 0 {
			okComp = c.Compression == e.comp
		}
		if e.stream != 0 {
			okStream = c.StreamType == e.stream
		}
		if e.tls != nil {
			okTLS = c.UseTLS == *e.tls
		}
		if e.certs != nil {
			okCerts = c.UseTLSClientCerts == *e.certs
		}
		if e.limit != nil {
			okLimit = c.UseMessageReceiveLimit == *e.limit
		}
	}
	if !(okVer && okProto && okCodec && okComp && okStream && okTLS && okCerts && okLimit) {
		return false
	}
	if c.Codec == 3 { // CODEC_TEXT is deprecated and ignored
		return false
	}
	if c.ConnectVersionMode != 0 {
		return false
	}
	if c.UseConnectGET && !(c.Protocol == 1 && f.get) {
		return false
	}
	if !c.UseTLS && (c.Version == 3 || (c.Version == 2 && !f.h2c)) {
		return false
	}
	if c.UseTLSClientCerts && !c.UseTLS {
		return false
	}
	if c.Protocol == 2 && c.Version != 2 {
		return false
	}
	if c.StreamType == 5 && c.Version == 1 {
		return false
	}
	if c.StreamType == 4 && c.Version == 1 && !f.halfdup1 {
		return false
	}
	return true
}

// specValid: every member is internally possible (the validity clause of the property, stated on its own).
func specValid(f vF, c configCase) bool {
	return (c.Protocol != 2 || c.Version == 2) &&
		(c.Version != 3 || c.UseTLS) &&
		(c.Version != 2 || c.UseTLS || f.h2c) &&
		(!c.UseTLSClientCerts || c.UseTLS) &&
		!(c.StreamType == 5 && c.Version == 1) &&
		(!(c.StreamType == 4 && c.Version == 1) || f.halfdup1) &&
		(!c.UseConnectGET || c.Protocol == 1) &&
		c.Codec != 3
}

func vProbe() configCase {
	return configCase{
		Version:                conformancev1.HTTPVersion(vInt("c.ver", 0, 4)),
		Protocol:               conformancev1.Protocol(vInt("c.proto", 0, 4)),
		Codec:                  conformancev1.Codec(vInt("c.codec", 0, 4)),
		Compression:            conformancev1.Compression(vInt("c.comp", 0, 7)),
		StreamType:             conformancev1.StreamType(vInt("c.stream", 0, 6)),
		UseTLS:                 vBool("c.tls"),
		UseTLSClientCerts:      vBool("c.certs"),
		UseConnectGET:          vBool("c.get"),
		UseMessageReceiveLimit: vBool("c.limit"),
		ConnectVersionMode:     conformancev1.TestSuite_ConnectVersionMode(vInt("c.cvm", 0, 1)),
	}
}

// H06a: features only: resolveFeatures + computeCasesFromFeatures == spec, for an arbitrary probe case.
func h06a(L int) {
	in := vSymFeatures(L)
	want := specFeatures(in)
	got, err := resolveFeatures(in)
	vAssert((err != nil) == want.isErr, "features are rejected exactly when contradictory")
	if err != nil {
		return
	}
	vAssert(got.SupportsH2C == want.h2c && got.SupportsTLS == want.tls && got.SupportsTLSClientCerts == want.certs &&
		got.SupportsTrailers == want.trailers && got.SupportsHalfDuplexBidiOverHTTP1 == want.halfdup1 &&
		got.SupportsConnectGet == want.get && got.SupportsMessageReceiveLimit == want.limit, "flag defaults follow config.proto")
	// resolved lists are the given ones, or the documented defaults
	okLists := len(got.Versions) == len(want.ver) && len(got.Protocols) == len(want.proto) && len(got.Codecs) == len(want.codec) &&
		len(got.Compressions) == len(want.comp) && len(got.StreamTypes) == len(want.stream)
	if okLists {
		for i := range want.ver {
			okLists = okLists && got.Versions[i] == want.ver[i]
		}
		for i := range want.proto {
			okLists = okLists && got.Protocols[i] == want.proto[i]
		}
		for i := range want.codec {
			okLists = okLists && got.Codecs[i] == want.codec[i]
		}
		for i := range want.comp {
			okLists = okLists && got.Compressions[i] == want.comp[i]
		}
		for i := range want.stream {
			okLists = okLists && got.StreamTypes[i] == want.stream[i]
		}
	}
	vAssert(okLists, "resolved axis lists are the given lists or the documented defaults")
	cases := computeCasesFromFeatures(got, nil, nil, nil)
	c := vProbe()
	_, in1 := cases[c]
	vAssert(in1 == specMember(want, nil, c), "case is computed from the features iff the specification admits it")
	vAssert(!in1 || specValid(want, c), "every computed case is internally possible")
}

func H06a_q() { h06a(2) }
func H06a_t() { h06a(3) }

func vSymEntry(name string, i int) (*conformancev1.ConfigCase, *vEntry) {
	e := &vEntry{
		ver:    conformancev1.HTTPVersion(vIntAt(name+".ver", i, 2, 0, 3)),
		proto:  conformancev1.Protocol(vIntAt(name+".proto", i, 2, 0, 3)),
		codec:  conformancev1.Codec(vIntAt(name+".codec", i, 2, 0, 2)),
		comp:   conformancev1.Compression(vIntAt(name+".comp", i, 2, 0, 2)),
		stream: conformancev1.StreamType(vIntAt(name+".stream", i, 2, 0, 5)),
		tls:    vTriAt(name+".tls", i, 2),
		certs:  vTriAt(name+".certs", i, 2),
		limit:  vTriAt(name+".limit", i, 2),
	}
	return &conformancev1.ConfigCase{Version: e.ver, Protocol: e.proto, Codec: e.codec, Compression: e.comp, StreamType: e.stream,
		UseTls: e.tls, UseTlsClientCerts: e.certs, UseMessageReceiveLimit: e.limit}, e
}

// specEntryErr: an include/exclude entry is contradictory
func specEntryErr(f vF, e *vEntry) bool {
	usingTLS := f.tls
	if e.tls != nil {
		usingTLS = *e.tls
	}
	if e.ver == 2 && !usingTLS && !f.h2c {
		return true
	}
	if e.ver == 3 && !usingTLS {
		return true
	}
	// versions the entry ranges over
	has2 := vHasVer(f.ver, 2)
	only1 := len(f.ver) > 0
	for _, v := range f.ver {
		if v != 1 {
			only1 = false
		}
	}
	if e.ver != 0 {
		has2 = e.ver == 2
		only1 = e.ver == 1
	}
	if e.proto == 2 && !has2 {
		return true
	}
	if e.stream == 4 && only1 && !f.halfdup1 {
		return true
	}
	if e.stream == 5 && only1 {
		return true
	}
	// asking for client certificates without TLS is contradictory; saying "no client certificates" never is
	// (config.proto: use_tls_client_certs "must be false if use_tls is false")
	if e.certs != nil && *e.certs {
		if e.tls != nil && !*e.tls {
			return true
		}
		if e.tls == nil && !f.tls {
			return true
		}
	}
	return false
}

// H06p: parseConfig with <=NI include and <=NE exclude entries.
func h06p(L, NI, NE int) {
	cfg := &conformancev1.Config{Features: vSymFeatures(L)}
	f := specFeatures(cfg.Features)
	var inc, exc [2]*vEntry
	ni := vInt("ninc", 0, NI)
	for i := 0; i < ni; i++ {
		var cc *conformancev1.ConfigCase
		cc, inc[i] = vSymEntry("inc", i)
		cfg.IncludeCases = append(cfg.IncludeCases, cc)
	}
	ne := vInt("nexc", 0, NE)
	for i := 0; i < ne; i++ {
		var cc *conformancev1.ConfigCase
		cc, exc[i] = vSymEntry("exc", i)
		cfg.ExcludeCases = append(cfg.ExcludeCases, cc)
	}
	vCfg = cfg
	data := []byte("x")
	if vNative() {
		b, err := protojson.Marshal(cfg)
		if err != nil {
			panic(err)
		}
		data = b
	}
	cases, err := parseConfig("cfg.yaml", data)

	wantErr := f.isErr
	for i := 0; i < ni; i++ {
		if !f.isErr && specEntryErr(f, inc[i]) {
			wantErr = true
		}
	}
	for i := 0; i < ne; i++ {
		if !f.isErr && specEntryErr(f, exc[i]) {
			wantErr = true
		}
	}
	if wantErr {
		vAssert(err != nil, "contradictory configurations are rejected with an error")
		return
	}
	c := vProbe()
	member := specMember(f, nil, c)
	for i := 0; i < ni; i++ {
		if specMember(f, inc[i], c) {
			member = true
		}
	}
	for i := 0; i < ne; i++ {
		if specMember(f, exc[i], c) {
			member = false
		}
	}
	if err != nil {
		// the only remaining legitimate error: the configuration denotes no case at all; then the probe is no member
		vAssert(!member, "a configuration that denotes some case is not rejected")
		return
	}
	vAssert(len(cases) > 0, "a configuration that denotes no case at all is rejected with an error")
	found := false
	for _, k := range cases {
		if k == c {
			found = true
		}
	}
	vAssert(found == member, "config cases == (features + includes) - excludes")
	vAssert(!found || specValid(f, c), "every resulting case is internally possible")
}

func H06p_q() {
	vExactLists = true
	vNoCerts = true
	h06p(1, 1, 1)
}
func H06p_d() { h06p(1, 1, 0) }
func H06p_t() { h06p(2, 2, 2) }


// H06r: one or two include/exclude entries resolved against the same features: each denotes exactly the
// specified set (an omitted field ranges over what the features support), and resolving one entry does not
// disturb the next.
func h06r(L, N int) {
	in := vSymFeatures(L)
	want := specFeatures(in)
	vAssume(!want.isErr)
	got, err := resolveFeatures(in)
	vAssume(err == nil)
	c := vProbe()
	for i := 0; i < N; i++ {
		cc, e := vSymEntry("ent", i)
		set, err := resolveCase(got, cc)
		vAssert((err != nil) == specEntryErr(want, e), "an entry is rejected exactly when contradictory")
		if err == nil {
			_, in1 := set[c]
			vAssert(in1 == specMember(want, e, c), "an entry denotes exactly the cases matching its set fields, other fields ranging over the features")
			vAssert(!in1 || specValid(want, c), "every case of an entry is internally possible")
		}
	}
}

func H06r_q()  { h06r(1, 1) }
func H06r2_q() { h06r(1, 2) }
func H06r_t()  { h06r(2, 2) }
