//go:build verif

package connectconformance

import (
	"context"
	"io"
	"strings"

	"connectrpc.com/conformance/internal"
	conformancev1 "connectrpc.com/conformance/internal/gen/proto/go/connectrpc/conformance/v1"
	"connectrpc.com/conformance/internal/tracer"
	"golang.org/x/sync/semaphore"
)

// C05 (dispatch clause): run() itself - library, pattern validation, filter, the client x server x instance
// loop, the semaphore - hands every selected permutation (gRPC-peer permutations under their marked names
// included) to exactly one batch, and nothing else.
//
// Symbolically the processes are cut away: runClient yields a scripted client, runTestCasesForServer is a
// recorder that records every case of its batch as "server could not be started" (which is what the real one
// does natively here, where the server command does not exist), the semaphore is a counter.

type vRunClientT struct{ closed, stopped int }

func (c *vRunClientT) sendRequest(req *conformancev1.ClientCompatRequest, whenDone func(string, *conformancev1.ClientCompatResponse, error)) error {
	return errClosed
}
func (c *vRunClientT) closeSend()              { c.closed++ }
func (c *vRunClientT) waitForResponses() error { return nil }
func (c *vRunClientT) isRunning() bool         { return true }
func (c *vRunClientT) stop()                   { c.stopped++ }

var (
	vRunClients  int
	vRunBatches  int
	vRunEmpty    int
	vRunMismatch int
	vRunHanded   map[string]int
	vSemSize     int64
	vSemHeld     int64
	vSemMax      int64
	vSemNever    = make(chan struct{})
)

func vModelRunClient(ctx context.Context, start processStarter) (clientRunner, error) {
	vRunClients++
	return &vRunClientT{}, nil
}

func vModelRunInProcess(args []string, impl func(ctx context.Context, args []string, in io.ReadCloser, out, err io.WriteCloser) error) processStarter {
	return nil
}

func vModelRunCommand(command []string) processStarter { return nil }

func vModelRunBatch(
	ctx context.Context, isReferenceClient bool, isReferenceServer bool, meta serverInstance,
	testCases []*conformancev1.TestCase, serverCreds *conformancev1.TLSCreds, clientCreds *conformancev1.TLSCreds,
	startServer processStarter, logPrinter, errPrinter internal.Printer, results *testResults, client clientRunner,
	trace *tracer.Tracer, logEach bool,
) {
	vRunBatches++
	if len(testCases) == 0 {
		vRunEmpty++
	}
	if vSemHeld > vSemMax {
		vSemMax = vSemHeld
	}
	for _, tc := range testCases {
		r := tc.Request
		vRunHanded[r.TestName]++
		if r.Protocol != meta.protocol || r.HttpVersion != meta.httpVersion || (len(r.ServerTlsCert) > 0) != meta.useTLS {
			vRunMismatch++
		}
	}
	results.failedToStart(testCases, errVerifStart)
}

func vModelSemNew(n int64) *semaphore.Weighted {
	vSemSize, vSemHeld = n, 0
	return &semaphore.Weighted{}
}

func vModelSemAcquire(s *semaphore.Weighted, ctx context.Context, n int64) error {
	if vSemHeld+n > vSemSize {
		<-vSemNever // every batch already spawned has returned, so nobody will give a slot back: run() does not terminate
	}
	vSemHeld += n
	return nil
}

func vModelSemRelease(s *semaphore.Weighted, n int64) { vSemHeld -= n }

func h05rMatches(kind int, test int, marked bool) bool {
	switch kind {
	case 1: // S/**/one
		return test == 0
	case 2: // **/(grpc client impl)/*
		return marked
	case 3: // **/two
		return test == 1
	}
	return false
}

func H05r_q() { h05r(2, 2) }

// thorough: three tests per instance, --max-servers up to 3
func H05r_t() { h05r(3, 3) }

func h05r(nTests, maxMS int) {
	allProtocols = []conformancev1.Protocol{1, 2}
	allHTTPVersions = []conformancev1.HTTPVersion{1, 2}
	allCodecs = []conformancev1.Codec{1}
	allCompressions = []conformancev1.Compression{1}
	allStreamTypes = []conformancev1.StreamType{1}
	vRunClients, vRunBatches, vRunEmpty, vRunMismatch, vSemHeld, vSemMax = 0, 0, 0, 0, 0, 0
	vRunHanded = map[string]int{}

	s := &conformancev1.TestSuite{Name: "S"}
	tnames := [3]string{"one", "two", "three"}
	for i := 0; i < nTests; i++ {
		s.TestCases = append(s.TestCases, &conformancev1.TestCase{Request: &conformancev1.ClientCompatRequest{TestName: tnames[i], StreamType: 1}})
	}
	suites := map[string]*conformancev1.TestSuite{"f.yaml": s}
	// two server instances: gRPC over HTTP/2 (which the gRPC peers support) and Connect over HTTP/1.1 (which they do not)
	configCases := []configCase{
		{Version: 2, Protocol: 2, Codec: 1, Compression: 1, StreamType: 1},
		{Version: 1, Protocol: 1, Codec: 1, Compression: 1, StreamType: 1},
	}
	mk := func(tag string) *testTrie {
		switch vInt(tag, 0, 3) {
		case 0:
			return nil
		case 1:
			return parsePatterns([]string{"S/**/one"})
		case 2:
			return parsePatterns([]string{"**/(grpc client impl)/*"})
		default:
			return parsePatterns([]string{"**/two"})
		}
	}
	runT, skipT := mk("run"), mk("skip")
	runKind, skipKind := vInt("run", 0, 3), vInt("skip", 0, 3)
	maxServers := vInt("maxServers", 1, maxMS)
	flags := &Flags{ServerCommand: []string{"/nonexistent/verif-no-such-server"}, MaxServers: uint(maxServers), Parallelism: 1}
	rec := &vRecPrinter{}

	results, err := run(configCases, &testTrie{}, &testTrie{}, runT, skipT, suites, rec, rec, flags)
	vAssert(err == nil && results != nil, "run() dispatches without error when every pattern matches some permutation")
	if err != nil || results == nil {
		return
	}
	selected := func(grpcInst bool, test int, marked bool) bool {
		if marked && !grpcInst {
			return false // the gRPC peers do not support Connect over HTTP/1.1: no such permutation exists
		}
		return (runKind == 0 || h05rMatches(runKind, test, marked)) && !(skipKind != 0 && h05rMatches(skipKind, test, marked))
	}
	want := 0
	for k := 0; k < 4; k++ {
		for t := 0; t < nTests; t++ {
			if selected(k&1 != 0, t, k&2 != 0) {
				want++
			}
		}
	}
	seen := 0
	for name, o := range results.outcomes {
		grpcInst := strings.Contains(name, "HTTPVersion:2/")
		test := 2
		if strings.HasSuffix(name, "/one") {
			test = 0
		} else if strings.HasSuffix(name, "/two") {
			test = 1
		}
		marked := strings.Contains(name, "/(grpc client impl)/")
		vAssert(selected(grpcInst, test, marked), "a permutation that is not selected (run/skip filter; gRPC-peer support) is never handed to a batch")
		vAssert(o.setupError, "a case whose server could not be started is recorded as a setup failure")
		seen++
	}
	vAssert(seen == want, "every selected permutation - gRPC-peer permutations under their marked names included - is handed to a batch")
	if !vNative() {
		for _, n := range vRunHanded {
			vAssert(n == 1, "a selected permutation is handed out exactly once")
		}
		vAssert(vRunEmpty == 0, "no server is started for an empty work list")
		vAssert(vRunMismatch == 0, "every batch goes to the server instance of its permutations' protocol, HTTP version and TLS mode")
		vAssert(vRunClients == 2, "both reference clients (Connect and gRPC) are driven in server mode")
	}
}
