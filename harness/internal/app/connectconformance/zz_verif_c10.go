//go:build verif

package connectconformance

import (
	"context"
	"errors"
	"io"
	"time"

	conformancev1 "connectrpc.com/conformance/internal/gen/proto/go/connectrpc/conformance/v1"
	"google.golang.org/protobuf/proto"
)

// C10: the client multiplexer answers every request exactly once, whatever the client does
// (sequentialised: each lock-protected section / environment call is one atomic step).

var errVerifIO = errors.New("verif: i/o error")
var errVerifExit = errors.New("verif: exit status 3")

// vProc is the fake process controller.
type vProc struct {
	doneFns  [2]func(error)
	nDone    int
	aborted  int
	exitErr  error
}

func (p *vProc) result() error { return p.exitErr }
func (p *vProc) abort()        { p.aborted++ }
func (p *vProc) whenDone(f func(error)) {
	if p.nDone < 2 {
		p.doneFns[p.nDone] = f
	}
	p.nDone++
}

// vPipeW / vPipeR are the client's stdin / stdout. The symbolic engine never calls them (delimited I/O is
// stubbed, see below); natively they realise the same script with real bytes, so that a solver model replays
// faithfully against the real ReadDelimitedMessage / WriteDelimitedMessage.
type vPipeW struct {
	closed int
	writes int
}

func (w *vPipeW) Write(p []byte) (int, error) {
	w.writes++
	if w.writes%2 == 1 { // first Write of a message (the length prefix)
		if err := vWriteOutcome(); err != nil {
			return 0, err
		}
	}
	return len(p), nil
}
func (w *vPipeW) Close() error { w.closed++; return nil }

type vPipeR struct {
	buf []byte
}

func (r *vPipeR) Read(p []byte) (int, error) {
	if len(r.buf) == 0 {
		name, err := vNextResponse()
		if err != nil {
			return 0, err
		}
		data, merr := proto.Marshal(&conformancev1.ClientCompatResponse{TestName: name})
		if merr != nil {
			panic(merr)
		}
		r.buf = append([]byte{byte(len(data) >> 24), byte(len(data) >> 16), byte(len(data) >> 8), byte(len(data))}, data...)
	}
	n := copy(p, r.buf)
	r.buf = r.buf[n:]
	return n, nil
}

func vWriteOutcome() error {
	switch vIntAt("werr", vEnv.nextSend-1, vMaxSends, 0, 2) {
	case 1:
		return io.ErrClosedPipe
	case 2:
		return errVerifIO
	}
	return nil
}

// vNextResponse is one step of the client's output: a scheduling point for pending senders, then either the
// next response's test name or the terminal condition.
func vNextResponse() (string, error) {
	e := vEnv
	if e.blockRead {
		if vNative() {
			select {}
		}
		vBlock()
	}
	i := e.reads
	e.reads++
	for e.sendsLeft > 0 && vBoolAt("sendDuringRead", i*vMaxSends+e.nextSend, (vMaxResps+1)*vMaxSends) {
		k := e.nextSend
		e.nextSend++
		e.sendsLeft--
		vDoSend(k)
	}
	if i >= e.nResp {
		if e.endsWith == 0 {
			return "", io.EOF
		}
		return "", errVerifIO
	}
	name := vNameOf(vIntAt("rname", i, vMaxResps, 0, 2))
	// reference: the answer belongs to the pending request of that name; an answer nobody waits for ends the reader
	if !vRefFailed {
		hit := false
		for k := 0; k < vMaxSends; k++ {
			if !hit && vRefPending[k] && vSendName[k] == name {
				hit = true
				vRefPending[k] = false
				vWantResp[k] = true
			}
		}
		if !hit {
			vRefFailed = true
		}
	}
	return name, nil
}

// ---- environment: delimited I/O is stubbed (its own behaviour is C09) ----

type vClientEnv struct {
	c *clientProcessRunner
	// script of the client's output
	nResp    int      // number of well-formed responses before the stream ends
	reads    int
	endsWith int // 0 = clean EOF, 1 = other error (truncated / oversize / garbage are all "an error" to this caller)
	// sends still to be issued, possibly while the reader is inside a read (scheduling points)
	sendsLeft int
	nextSend  int
	blockRead bool
}

var vEnv *vClientEnv

const vMaxSends = 3
const vMaxResps = 3

var vSendRet [vMaxSends]error
var vSendDone [vMaxSends]bool
var vCalls [vMaxSends]int
var vGotResp [vMaxSends]bool
var vGotOwn [vMaxSends]bool
var vGotErr [vMaxSends]bool
var vSendName [vMaxSends]string
var vRefPending [vMaxSends]bool // reference: accepted and not yet answered
var vWantResp [vMaxSends]bool   // reference: the client answered this request while it was pending
var vRefFailed bool             // reference: the client misbehaved (answer without a pending request)

func vNameOf(k int) string {
	switch k {
	case 0:
		return "t/a"
	case 1:
		return "t/b"
	default:
		return "t/zz"
	}
}

func vDoSend(i int) {
	name := vNameOf(vIntAt("sname", i, vMaxSends, 0, 1))
	vSendName[i] = name
	idx := i
	vSendRet[i] = vEnv.c.sendRequest(&conformancev1.ClientCompatRequest{TestName: name}, func(n string, resp *conformancev1.ClientCompatResponse, err error) {
		vCalls[idx]++
		if resp != nil {
			vGotResp[idx] = true
			vGotOwn[idx] = resp.TestName == vSendName[idx] && n == vSendName[idx]
		}
		if err != nil {
			vGotErr[idx] = true
		}
	})
	vSendDone[i] = true
	if vSendRet[i] == nil {
		vRefPending[i] = true
	}
}

//verif:replace connectrpc.com/conformance/internal.WriteDelimitedMessage vModelWriteDelimited
func vModelWriteDelimited(out io.Writer, msg *conformancev1.ClientCompatRequest) error {
	return vWriteOutcome()
}

//verif:replace connectrpc.com/conformance/internal.ReadDelimitedMessage vModelReadDelimited
func vModelReadDelimited(in io.Reader, msg *conformancev1.ClientCompatResponse, source string, timeout time.Duration, maxSize int) error {
	name, err := vNextResponse()
	if err != nil {
		return err
	}
	msg.TestName = name
	return nil
}

// H10b: exactly-once completion for every accepted request.
func h10b(S, R int) {
	vSendRet, vSendDone, vCalls = [vMaxSends]error{}, [vMaxSends]bool{}, [vMaxSends]int{}
	vGotResp, vGotOwn, vGotErr = [vMaxSends]bool{}, [vMaxSends]bool{}, [vMaxSends]bool{}
	vSendName, vRefPending, vWantResp, vRefFailed = [vMaxSends]string{}, [vMaxSends]bool{}, [vMaxSends]bool{}, false
	proc := &vProc{}
	c := &clientProcessRunner{
		proc:       &process{processController: proc, stdin: &vPipeW{}, stdout: &vPipeR{}},
		done:       make(chan struct{}),
		pendingOps: map[string]func(string, *conformancev1.ClientCompatResponse, error){},
	}
	ns := vInt("nsends", 0, S)
	vEnv = &vClientEnv{c: c, nResp: vInt("nresp", 0, R), endsWith: vInt("endsWith", 0, 1), sendsLeft: ns}
	// some sends happen before the reader starts
	pre := vInt("sendsBefore", 0, S)
	for i := 0; i < S; i++ {
		if i < pre && vEnv.sendsLeft > 0 {
			k := vEnv.nextSend
			vEnv.nextSend++
			vEnv.sendsLeft--
			vDoSend(k)
		}
	}
	c.consumeOutput()
	// sends after the reader has finished must be refused
	for i := 0; i < S; i++ {
		if vEnv.sendsLeft > 0 {
			k := vEnv.nextSend
			vEnv.nextSend++
			vEnv.sendsLeft--
			vDoSend(k)
			vAssert(vSendRet[k] != nil, "after the output reader has ended, further sends are refused")
		}
	}
	for i := 0; i < S; i++ {
		if !vSendDone[i] {
			continue
		}
		if vSendRet[i] != nil {
			vAssert(vCalls[i] == 0, "a refused or failed send never fires its callback")
		} else {
			vAssert(vCalls[i] == 1, "an accepted request's callback fires exactly once")
			vAssert(vGotResp[i] != vGotErr[i], "the callback carries either a response or an error")
			vAssert(!vGotResp[i] || vGotOwn[i], "a response is delivered only to the request of the same test name")
			vAssert(vGotResp[i] == vWantResp[i], "the callback carries the test's own response exactly if the client answered it while it was pending - also for a name that was used and answered before")
		}
	}
	vAssert(len(c.pendingOps) == 0, "nothing stays pending after the reader has ended")
	// waiting for completion returns (done is closed) and reports abnormal ends
	proc.exitErr = nil
	werr := c.waitForResponses()
	abnormal := vEnv.endsWith == 1 || vEnv.reads <= vEnv.nResp
	for i := 0; i < S; i++ {
		if vSendDone[i] && vSendRet[i] != nil && !errors.Is(vSendRet[i], errDuplicate) {
			abnormal = true
		}
	}
	if vEnv.endsWith == 1 || vEnv.reads <= vEnv.nResp {
		vAssert(werr != nil, "an abnormal end of the client's output is reported by waitForResponses")
		vAssert(!c.isRunning(), "after an abnormal end the client is reported as no longer running")
	}
	_ = abnormal
}

func H10b_q() { h10b(2, 2) }
func H10b_t() { h10b(3, 2) }

// H10a: once the client process has ended (any exit status, including 0), the runner reports it as not running.
func H10a_q() {
	proc := &vProc{}
	vEnv = &vClientEnv{blockRead: true}
	start := func(ctx context.Context, pipeStderr bool) (*process, error) {
		return &process{processController: proc, stdin: &vPipeW{}, stdout: &vPipeR{}}, nil
	}
	cr, err := runClient(context.Background(), start)
	vAssume(err == nil)
	vAssert(cr.isRunning(), "a freshly started client is running")
	vAssert(proc.nDone == 1, "the runner subscribes to the end of the process")
	var exit error
	if vBool("exitNonZero") {
		exit = errVerifExit
	}
	proc.doneFns[0](exit)
	vAssert(!cr.isRunning(), "after the client process has ended (exit status 0 included) it is reported as not running")
}
