//go:build verif

package connectconformance

// C08: test-name patterns follow glob semantics.

func vComp(k int) string {
	switch k {
	case 0:
		return "a"
	case 1:
		return "b"
	case 2:
		return "*"
	default:
		return "**"
	}
}

// specGlob is the reference semantics from docs/configuring_and_running_tests.md:
// literals are equal, "*" is exactly one component, "**" is zero or more.
func specGlob(p, n []string) bool {
	if len(p) == 0 {
		return len(n) == 0
	}
	switch p[0] {
	case "**":
		for k := 0; k <= len(n); k++ {
			if specGlob(p[1:], n[k:]) {
				return true
			}
		}
		return false
	case "*":
		return len(n) > 0 && specGlob(p[1:], n[1:])
	default:
		return len(n) > 0 && p[0] == n[0] && specGlob(p[1:], n[1:])
	}
}

func h08a(P, L, N int) {
	var tt testTrie
	pats := make([][]string, 0, P)
	np := vInt("np", 1, P)
	for i := 0; i < np; i++ {
		l := vIntAt("plen", i, P, 1, L)
		p := make([]string, l)
		for j := 0; j < l; j++ {
			p[j] = vComp(vIntAt("pc", i*L+j, P*L, 0, 3))
		}
		tt.add(p)
		pats = append(pats, p)
	}
	nl := vInt("nlen", 1, N)
	name := make([]string, nl)
	for j := 0; j < nl; j++ {
		name[j] = vComp(vIntAt("nc", j, N, 0, 1))
	}
	got := tt.match(name)
	vTrace("got", got)
	want := false
	for _, p := range pats {
		if specGlob(p, name) {
			want = true
		}
	}
	vTrace("want", want)
	vAssert(got == want, "trie.match(name) == exists pattern. glob(pattern, name)")
}

func H08a_q() { h08a(2, 3, 3) }
func H08a_t() { h08a(3, 4, 5) }

func H08a_d1() { h08a(1, 1, 1) }
func H08a_d2() { h08a(1, 2, 2) }
func H08a_d3() { h08a(2, 1, 1) }

func H08a_dbg() {
	var tt testTrie
	p := []string{vComp(vInt("p0", 0, 3))}
	tt.add(p)
	name := []string{vComp(vInt("n0", 0, 1))}
	got := tt.match(name)
	vAssert(!got, "dbg: never matches (should be sat)")
	vAssert(got == specGlob(p, name), "dbg: spec")
	vAssert(!specGlob(p, name), "dbg: spec never matches (should be sat)")
}

func H08a_d4() { h08a(2, 2, 2) }
func H08a_d5() { h08a(1, 3, 3) }
func H08a_d6() { h08a(2, 3, 1) }
func H08a_d7() { h08a(2, 2, 1) }

// H08b: addPattern/matchPattern are add/match after splitting on "/".
func h08b(S int) {
	var tt testTrie
	p := vStringOf("pat", S, "a*/")
	n := vStringOf("name", S, "a/")
	tt.addPattern(p)
	got := tt.matchPattern(n)
	want := specGlob(vModelSplit(p, "/"), vModelSplit(n, "/"))
	vAssert(got == want, "matchPattern(name) == glob(split(pattern), split(name))")
}

func H08b_q() { h08b(4) }
func H08b_t() { h08b(5) }

// H08c: a pattern that matches none of the names is reported by allUnmatched.
func h08c(P, L, N int) {
	var tt testTrie
	pats := make([][]string, 0, P)
	np := vInt("np", 1, P)
	for i := 0; i < np; i++ {
		l := vIntAt("plen", i, P, 1, L)
		p := make([]string, l)
		for j := 0; j < l; j++ {
			p[j] = vComp(vIntAt("pc", i*L+j, P*L, 0, 3))
		}
		tt.add(p)
		pats = append(pats, p)
	}
	names := make([][]string, 0, 2)
	nn := vInt("nn", 0, 2)
	for k := 0; k < nn; k++ {
		nl := vIntAt("nlen", k, 2, 1, N)
		name := make([]string, nl)
		for j := 0; j < nl; j++ {
			name[j] = vComp(vIntAt("nc", k*N+j, 2*N, 0, 1))
		}
		names = append(names, name)
		tt.match(name)
	}
	unmatched := tt.allUnmatched()
	for _, p := range pats {
		matchesSome := false
		for _, n := range names {
			if specGlob(p, n) {
				matchesSome = true
			}
		}
		_, reported := unmatched[vModelJoin(p, "/")]
		if !matchesSome {
			vAssert(reported, "a pattern that matches no name is reported as unmatched")
		} else {
			// the report aborts the run: a pattern that does match must not be in it, even when every name it
			// matches is also matched by another pattern
			vAssert(!reported, "a pattern that matches some name is not reported as unmatched")
		}
	}
}

func H08c_q() { h08c(2, 2, 2) }
func H08c_t() { h08c(3, 3, 3) }

func H08b_d3() { h08b(3) }
func H08b_d4() { h08b(4) }
