//go:build verif

package connectconformance

import (
	conformancev1 "connectrpc.com/conformance/internal/gen/proto/go/connectrpc/conformance/v1"
)

// C07: suite expansion selects, names and populates permutations per the suite's directives.

func vSetEnumLists() {
	// the package-level "all values" lists (computed from the generated name tables at init) are bounded to two
	// values per axis for this harness - natively too, so replays are exact; the code is parametric in them
	allProtocols = []conformancev1.Protocol{1, 2}
	allHTTPVersions = []conformancev1.HTTPVersion{1, 3}
	allCodecs = []conformancev1.Codec{1, 2}
	allCompressions = []conformancev1.Compression{1, 2}
	allStreamTypes = []conformancev1.StreamType{1, 5}
}

func vSymCase(tag string) configCase {
	return configCase{
		Version:                conformancev1.HTTPVersion(1 + 2*vInt(tag+".ver", 0, 1)),
		Protocol:               conformancev1.Protocol(vInt(tag+".proto", 1, 2)),
		Codec:                  conformancev1.Codec(vInt(tag+".codec", 1, 2)),
		Compression:            conformancev1.Compression(vInt(tag+".comp", 1, 2)),
		StreamType:             conformancev1.StreamType(1 + 4*vInt(tag+".stream", 0, 1)),
		UseTLS:                 vBool(tag + ".tls"),
		UseTLSClientCerts:      vBool(tag + ".certs"),
		UseConnectGET:          vBool(tag + ".get"),
		UseMessageReceiveLimit: vBool(tag + ".limit"),
		ConnectVersionMode:     conformancev1.TestSuite_ConnectVersionMode(vInt(tag+".cvm", 0, 2)),
	}
}

func h07a() {
	vSetEnumLists()
	s := &conformancev1.TestSuite{Name: "S"}
	// directives: each relevant list has 0, 1 or 2 entries
	nv := vInt("s.nver", 0, 2)
	for i := 0; i < nv; i++ {
		s.RelevantHttpVersions = append(s.RelevantHttpVersions, conformancev1.HTTPVersion(1+2*vIntAt("s.ver", i, 2, 0, 1)))
	}
	np := vInt("s.nproto", 0, 1)
	for i := 0; i < np; i++ {
		s.RelevantProtocols = append(s.RelevantProtocols, conformancev1.Protocol(vIntAt("s.proto", i, 2, 1, 2)))
	}
	nc := vInt("s.ncodec", 0, 1)
	for i := 0; i < nc; i++ {
		s.RelevantCodecs = append(s.RelevantCodecs, conformancev1.Codec(vIntAt("s.codec", i, 2, 1, 2)))
	}
	nz := vInt("s.ncomp", 0, 1)
	for i := 0; i < nz; i++ {
		s.RelevantCompressions = append(s.RelevantCompressions, conformancev1.Compression(vIntAt("s.comp", i, 2, 1, 2)))
	}
	s.ReliesOnTls, s.ReliesOnTlsClientCerts = vBool("s.tls"), vBool("s.certs")
	s.ReliesOnConnectGet, s.ReliesOnMessageReceiveLimit = vBool("s.get"), vBool("s.limit")
	s.ConnectVersionMode = conformancev1.TestSuite_ConnectVersionMode(vInt("s.cvm", 0, 2))
	s.Mode = conformancev1.TestSuite_TestMode(vInt("s.mode", 0, 2))
	mode := conformancev1.TestSuite_TestMode(vInt("mode", 1, 2))
	testStream := conformancev1.StreamType(1 + 4*vInt("t.stream", 0, 1))
	s.TestCases = []*conformancev1.TestCase{{Request: &conformancev1.ClientCompatRequest{TestName: "the-test", StreamType: testStream}}}

	c0 := vSymCase("c0")
	c1 := c0
	lib, err := newTestCaseLibrary(map[string]*conformancev1.TestSuite{"f.yaml": s}, []configCase{c0}, mode)

	onlyConnect := len(s.RelevantProtocols) == 1 && s.RelevantProtocols[0] == 1
	misconfigured := (s.ReliesOnTlsClientCerts && !s.ReliesOnTls) || ((s.ReliesOnConnectGet || s.ConnectVersionMode != 0) && !onlyConnect)
	modeOK := s.Mode == 0 || s.Mode == mode
	admits := func(c configCase) bool {
		okV := len(s.RelevantHttpVersions) == 0
		for _, v := range s.RelevantHttpVersions {
			if v == c.Version {
				okV = true
			}
		}
		okP := len(s.RelevantProtocols) == 0 || s.RelevantProtocols[0] == c.Protocol
		okC := len(s.RelevantCodecs) == 0 || s.RelevantCodecs[0] == c.Codec
		okZ := len(s.RelevantCompressions) == 0 || s.RelevantCompressions[0] == c.Compression
		return modeOK && okV && okP && okC && okZ && (!s.ReliesOnTls || c.UseTLS) &&
			c.UseTLSClientCerts == s.ReliesOnTlsClientCerts && c.UseConnectGET == s.ReliesOnConnectGet &&
			c.UseMessageReceiveLimit == s.ReliesOnMessageReceiveLimit && c.ConnectVersionMode == s.ConnectVersionMode &&
			c.StreamType == testStream
	}
	want := 0
	if admits(c0) {
		want++
	}
	_ = c1
	if modeOK && misconfigured {
		vAssert(err != nil, "a misconfigured suite (client certs without TLS; GET or Connect-version mode with non-Connect protocols) is rejected")
		return
	}
	if want == 0 {
		vAssert(err != nil || len(lib.testCases) == 0, "no permutation exists when no config case is admitted")
		return
	}
	vAssert(err == nil, "admitted permutations are expanded without error (their full names are unique)")
	if err != nil {
		return
	}
	vAssert(len(lib.testCases) == want, "a permutation exists for a config case exactly when mode, relevant lists, TLS / cert / GET / limit / version-mode reliance and stream type admit it")
	grouped := 0
	for inst, list := range lib.casesByServer {
		for _, tc := range list {
			grouped++
			r := tc.Request
			vAssert(inst.protocol == r.Protocol && inst.httpVersion == r.HttpVersion && inst.useTLS == (len(r.ServerTlsCert) > 0) && inst.useTLSClientCerts == (r.ClientTlsCreds != nil),
				"each permutation is grouped under the server instance matching its protocol, HTTP version and TLS markers")
		}
	}
	vAssert(grouped == want, "each permutation is grouped under exactly one server instance")
	for _, tc := range lib.testCases {
		r := tc.Request
		match := func(c configCase) bool {
			return r.HttpVersion == c.Version && r.Protocol == c.Protocol && r.Codec == c.Codec && r.Compression == c.Compression &&
				(len(r.ServerTlsCert) > 0) == c.UseTLS && (r.ClientTlsCreds != nil) == (c.UseTLS && c.UseTLSClientCerts)
		}
		vAssert((admits(c0) && match(c0)) || (admits(c1) && match(c1)), "the request carries its config case's version, protocol, codec, compression and TLS markers")
		vAssert(r.GetService() != "" && r.GetMethod() != "" && r.StreamType == testStream, "a default service and method are filled in for the stream type")
	}
}

func H07a_q() { h07a() }

// ---- enum names (the generated String methods go through the protobuf runtime) ----

//verif:replace (connectrpc.com/conformance/internal/gen/proto/go/connectrpc/conformance/v1.Protocol).String vModelProtocolString
func vModelProtocolString(x conformancev1.Protocol) string {
	switch x {
	case 1:
		return "PROTOCOL_CONNECT"
	case 2:
		return "PROTOCOL_GRPC"
	case 3:
		return "PROTOCOL_GRPC_WEB"
	}
	return "PROTOCOL_UNSPECIFIED"
}

//verif:replace (connectrpc.com/conformance/internal/gen/proto/go/connectrpc/conformance/v1.Codec).String vModelCodecString
func vModelCodecString(x conformancev1.Codec) string {
	switch x {
	case 1:
		return "CODEC_PROTO"
	case 2:
		return "CODEC_JSON"
	}
	return "CODEC_TEXT"
}

//verif:replace (connectrpc.com/conformance/internal/gen/proto/go/connectrpc/conformance/v1.Compression).String vModelCompressionString
func vModelCompressionString(x conformancev1.Compression) string {
	switch x {
	case 1:
		return "COMPRESSION_IDENTITY"
	case 2:
		return "COMPRESSION_GZIP"
	}
	return "COMPRESSION_OTHER"
}

// H07n: full names spell out exactly the axes the suite leaves open: two different config cases that the same
// suite admits get different name prefixes (so expanded names are unique), and equal cases get equal prefixes.
func H07n_q() {
	s := &conformancev1.TestSuite{Name: "S"}
	nv := vInt("s.nver", 0, 2)
	for i := 0; i < nv; i++ {
		s.RelevantHttpVersions = append(s.RelevantHttpVersions, conformancev1.HTTPVersion(vIntAt("s.ver", i, 2, 1, 3)))
	}
	np := vInt("s.nproto", 0, 2)
	for i := 0; i < np; i++ {
		s.RelevantProtocols = append(s.RelevantProtocols, conformancev1.Protocol(vIntAt("s.proto", i, 2, 1, 3)))
	}
	nc := vInt("s.ncodec", 0, 2)
	for i := 0; i < nc; i++ {
		s.RelevantCodecs = append(s.RelevantCodecs, conformancev1.Codec(vIntAt("s.codec", i, 2, 1, 2)))
	}
	nz := vInt("s.ncomp", 0, 2)
	for i := 0; i < nz; i++ {
		s.RelevantCompressions = append(s.RelevantCompressions, conformancev1.Compression(vIntAt("s.comp", i, 2, 1, 2)))
	}
	s.ReliesOnTls = vBool("s.tls")
	mk := func(tag string) configCase {
		return configCase{
			Version:     conformancev1.HTTPVersion(vInt(tag+".ver", 1, 3)),
			Protocol:    conformancev1.Protocol(vInt(tag+".proto", 1, 3)),
			Codec:       conformancev1.Codec(vInt(tag+".codec", 1, 2)),
			Compression: conformancev1.Compression(vInt(tag+".comp", 1, 2)),
			UseTLS:      vBool(tag + ".tls"),
		}
	}
	c0, c1 := mk("c0"), mk("c1")
	// both cases are admitted by the suite (a single relevant entry pins that axis; TLS reliance pins TLS)
	pinned := func(c configCase) bool {
		return (len(s.RelevantHttpVersions) != 1 || s.RelevantHttpVersions[0] == c.Version) &&
			(len(s.RelevantProtocols) != 1 || s.RelevantProtocols[0] == c.Protocol) &&
			(len(s.RelevantCodecs) != 1 || s.RelevantCodecs[0] == c.Codec) &&
			(len(s.RelevantCompressions) != 1 || s.RelevantCompressions[0] == c.Compression) &&
			(!s.ReliesOnTls || c.UseTLS)
	}
	vAssume(pinned(c0) && pinned(c1))
	p0 := generateTestCasePrefix(s, c0)
	p1 := generateTestCasePrefix(s, c1)
	same := len(p0) == len(p1)
	if same {
		for i := range p0 {
			if p0[i] != p1[i] {
				same = false
			}
		}
	}
	vAssert(same == (c0 == c1), "two admitted config cases get the same name prefix exactly when they are the same case")
}

// H07d: a value listed twice in one of the suite's relevant lists (legal in the schema: the lists are plain
// repeated fields) admits the same cases as listing it once.
func H07d_q() {
	vSetEnumLists()
	s := &conformancev1.TestSuite{Name: "S",
		RelevantHttpVersions: []conformancev1.HTTPVersion{1},
		RelevantProtocols:    []conformancev1.Protocol{1},
		RelevantCodecs:       []conformancev1.Codec{1},
		RelevantCompressions: []conformancev1.Compression{1},
	}
	switch vInt("dup", 0, 3) {
	case 0:
		s.RelevantHttpVersions = append(s.RelevantHttpVersions, 1)
	case 1:
		s.RelevantProtocols = append(s.RelevantProtocols, 1)
	case 2:
		s.RelevantCodecs = append(s.RelevantCodecs, 1)
	default:
		s.RelevantCompressions = append(s.RelevantCompressions, 1)
	}
	s.TestCases = []*conformancev1.TestCase{{Request: &conformancev1.ClientCompatRequest{TestName: "the-test", StreamType: 1}}}
	c0 := configCase{Version: 1, Protocol: 1, Codec: 1, Compression: 1, StreamType: 1, UseTLS: vBool("c0.tls")}
	lib, err := newTestCaseLibrary(map[string]*conformancev1.TestSuite{"f.yaml": s}, []configCase{c0}, conformancev1.TestSuite_TEST_MODE_CLIENT)
	vAssert(err == nil, "a relevant list that names a value twice is expanded without error")
	if err == nil {
		vAssert(len(lib.testCases) == 1, "exactly one permutation exists for the one admitted config case")
	}
}

// H07t: the TLS markers of a permutation are those of its config case, also when the test case definition
// already carries a server certificate or client credentials of its own (the fields are plain request fields,
// a test file may set them); the permutation is grouped under the server instance of its config case.
func H07t_q() {
	vSetEnumLists()
	s := &conformancev1.TestSuite{Name: "S",
		RelevantHttpVersions: []conformancev1.HTTPVersion{1},
		RelevantProtocols:    []conformancev1.Protocol{1},
		RelevantCodecs:       []conformancev1.Codec{1},
		RelevantCompressions: []conformancev1.Compression{1},
	}
	s.ReliesOnTls, s.ReliesOnTlsClientCerts = vBool("s.tls"), vBool("s.certs")
	vAssume(s.ReliesOnTls || !s.ReliesOnTlsClientCerts)
	req := &conformancev1.ClientCompatRequest{TestName: "the-test", StreamType: 1}
	if vBool("t.staleCert") {
		req.ServerTlsCert = []byte("stale-cert")
	}
	if vBool("t.staleCreds") {
		req.ClientTlsCreds = &conformancev1.TLSCreds{Cert: []byte("stale-cert"), Key: []byte("stale-key")}
	}
	s.TestCases = []*conformancev1.TestCase{{Request: req}}
	c0 := configCase{Version: 1, Protocol: 1, Codec: 1, Compression: 1, StreamType: 1, UseTLS: vBool("c0.tls"), UseTLSClientCerts: vBool("c0.certs")}
	vAssume(c0.UseTLS || !c0.UseTLSClientCerts)
	lib, err := newTestCaseLibrary(map[string]*conformancev1.TestSuite{"f.yaml": s}, []configCase{c0}, conformancev1.TestSuite_TEST_MODE_CLIENT)
	admitted := (!s.ReliesOnTls || c0.UseTLS) && c0.UseTLSClientCerts == s.ReliesOnTlsClientCerts
	if !admitted {
		vAssert(err != nil || len(lib.testCases) == 0, "no permutation exists when the suite's TLS reliance does not admit the config case")
		return
	}
	vAssert(err == nil, "an admitted permutation is expanded without error")
	if err != nil {
		return
	}
	want := 1
	vAssert(len(lib.testCases) == want, "a permutation exists exactly when the suite's TLS reliance admits the config case")
	for _, tc := range lib.testCases {
		r := tc.Request
		vAssert((len(r.ServerTlsCert) > 0) == c0.UseTLS && (r.ClientTlsCreds != nil) == c0.UseTLSClientCerts,
			"the request carries its config case's TLS markers, whatever the test case definition carried")
	}
	n := 0
	for inst, list := range lib.casesByServer {
		n += len(list)
		if len(list) > 0 {
			vAssert(inst.useTLS == c0.UseTLS && inst.useTLSClientCerts == c0.UseTLSClientCerts && inst.protocol == 1 && inst.httpVersion == 1,
				"the permutation is grouped under the server instance of its config case")
		}
	}
	vAssert(n == want, "each permutation is grouped under exactly one server instance")
}
