//go:build verif

package connectconformance

import (
	"errors"

	conformancev1 "connectrpc.com/conformance/internal/gen/proto/go/connectrpc/conformance/v1"
	"google.golang.org/protobuf/proto"
	"google.golang.org/protobuf/types/known/anypb"
)

// C02 (last sentence): deriving the expectation of any parseable test case never crashes the runner; shapes it
// cannot handle are rejected with an error. Plus the structural part of the derivation for stream responses.

var errVerifBadAny = errors.New("verif: cannot unmarshal Any")

var vReqTable [4]proto.Message

//verif:replace (*google.golang.org/protobuf/types/known/anypb.Any).UnmarshalNew vModelAnyUnmarshalNew
func vModelAnyUnmarshalNew(x *anypb.Any) (proto.Message, error) {
	if len(x.Value) == 0 || x.Value[0] >= 4 {
		return nil, errVerifBadAny
	}
	return vReqTable[x.Value[0]], nil
}

//verif:replace google.golang.org/protobuf/types/known/anypb.UnmarshalNew vModelAnyUnmarshalNewFn
func vModelAnyUnmarshalNewFn(x *anypb.Any, opts proto.UnmarshalOptions) (proto.Message, error) {
	return vModelAnyUnmarshalNew(x)
}

//verif:replace google.golang.org/protobuf/types/known/anypb.New vModelAnyNew
func vModelAnyNew(m proto.Message) (*anypb.Any, error) {
	vLastAnyNew = m
	return &anypb.Any{TypeUrl: vReqInfoURL, Value: []byte{9}}, nil
}

var vLastAnyNew proto.Message

// vReqInfoOf: the request info packed into an error detail (natively: really unpacked)
func vReqInfoOf(a *anypb.Any) *conformancev1.ConformancePayload_RequestInfo {
	if vNative() {
		m, err := a.UnmarshalNew()
		if err != nil {
			return nil
		}
		ri, _ := m.(*conformancev1.ConformancePayload_RequestInfo)
		return ri
	}
	ri, _ := vLastAnyNew.(*conformancev1.ConformancePayload_RequestInfo)
	return ri
}

var vUserDetail = &anypb.Any{TypeUrl: "type.googleapis.com/google.protobuf.StringValue", Value: []byte{10, 1, 'u'}}

// natively the definition is a decoded copy: compare by content
func vIsUserDetail(a *anypb.Any) bool {
	return a != nil && a.TypeUrl == vUserDetail.TypeUrl && len(a.Value) == 3 && a.Value[2] == 'u'
}

func h02a(NR, ND int) {
	streamType := vInt("stream", 0, 6) // includes unspecified (0) and an out-of-range value (6)
	nReq := vInt("nreq", 0, NR)
	kind := vInt("kind", 0, 4) // type of the request messages: unary, client stream, server stream, bidi, undecodable
	hasDef := vBool("hasDef")
	nData := vInt("ndata", 0, ND)
	hasErr := vBool("hasErr")
	unaryResp := vInt("unaryResp", 0, 2) // nothing, data, error
	preset := vBool("preset")
	userDetail := vBool("userDetail") // the defined error carries a detail of its own
	defAt := vInt("defAt", 0, 2) // index of the request message that carries the response definition

	data := make([][]byte, 0, 3)
	for i := 0; i < nData; i++ {
		data = append(data, []byte{byte(i + 1)})
	}
	var sdef *conformancev1.StreamResponseDefinition
	var udef *conformancev1.UnaryResponseDefinition
	if hasDef {
		sdef = &conformancev1.StreamResponseDefinition{ResponseData: data}
		if hasErr {
			sdef.Error = &conformancev1.Error{Code: 5}
			if userDetail {
				sdef.Error.Details = []*anypb.Any{vUserDetail}
			}
		}
		udef = &conformancev1.UnaryResponseDefinition{}
		switch unaryResp {
		case 1:
			udef.Response = &conformancev1.UnaryResponseDefinition_ResponseData{ResponseData: []byte{7}}
		case 2:
			ue := &conformancev1.Error{Code: 5}
			if userDetail {
				ue.Details = []*anypb.Any{vUserDetail}
			}
			udef.Response = &conformancev1.UnaryResponseDefinition_Error{Error: ue}
		}
	}
	reqs := make([]*anypb.Any, 0, 3)
	for i := 0; i < nReq; i++ {
		var m proto.Message
		switch kind {
		case 0:
			r := &conformancev1.UnaryRequest{}
			if i == defAt {
				r.ResponseDefinition = udef
			}
			m = r
		case 1:
			r := &conformancev1.ClientStreamRequest{}
			if i == defAt {
				r.ResponseDefinition = udef
			}
			m = r
		case 2:
			r := &conformancev1.ServerStreamRequest{}
			if i == defAt {
				r.ResponseDefinition = sdef
			}
			m = r
		default:
			r := &conformancev1.BidiStreamRequest{FullDuplex: streamType == 5}
			if i == defAt {
				r.ResponseDefinition = sdef
			}
			m = r
		}
		if i < 4 {
			vReqTable[i] = m
		}
		if vNative() {
			a, err := anypb.New(m)
			if err != nil {
				panic(err)
			}
			if kind == 4 {
				a = &anypb.Any{TypeUrl: "type.googleapis.com/does.not.Exist", Value: []byte{1}}
			}
			reqs = append(reqs, a)
		} else if kind == 4 {
			reqs = append(reqs, &anypb.Any{TypeUrl: "bad", Value: []byte{200}})
		} else {
			reqs = append(reqs, &anypb.Any{TypeUrl: "req", Value: []byte{byte(i)}})
		}
	}
	tc := &conformancev1.TestCase{Request: &conformancev1.ClientCompatRequest{TestName: "t", StreamType: conformancev1.StreamType(streamType), RequestMessages: reqs}}
	if preset {
		tc.ExpectedResponse = &conformancev1.ClientResponseResult{}
	}
	err := populateExpectedResponse(tc) // obligation: no reachable panic
	vAssert(err != nil || tc.ExpectedResponse != nil, "either an expectation is derived or the case is rejected with an error")
	// the reference servers take the response definition from the first message they receive, and only from it
	if err == nil && !preset && streamType >= 1 && streamType <= 2 && nReq > 0 && kind <= 1 {
		exp := tc.ExpectedResponse
		used := hasDef && defAt == 0
		vAssert((exp.Error != nil) == (used && unaryResp == 2), "unary / client stream: an error is expected iff the first request's definition has one")
		if exp.Error != nil {
			nd := 1
			if userDetail {
				nd = 2
			}
			vAssert(len(exp.Error.Details) == nd && (!userDetail || vIsUserDetail(exp.Error.Details[0])), "unary error: the definition's own details are kept and the request info is appended")
		}
		if exp.Error == nil {
			vAssert(len(exp.Payloads) == 1, "unary / client stream without error: exactly one expected payload")
			if len(exp.Payloads) == 1 {
				p := exp.Payloads[0]
				vAssert((len(p.Data) == 1 && p.Data[0] == 7) == (used && unaryResp == 1), "the expected payload carries the first request's response data, and only that")
				vAssert(p.RequestInfo != nil && len(p.RequestInfo.Requests) == nReq, "the expected payload echoes all requests")
			}
		}
	}
	if err == nil && !preset && streamType >= 3 && streamType <= 5 && nReq > 0 && kind >= 2 && kind <= 3 && !(hasDef && defAt == 0) {
		exp := tc.ExpectedResponse
		vAssert(len(exp.Payloads) == 0 && exp.Error == nil, "streams: no definition in the first request means nothing is expected back")
	}
	if err == nil && !preset && streamType >= 3 && streamType <= 5 && nReq > 0 && hasDef && defAt == 0 && kind >= 2 && kind <= 3 {
		exp := tc.ExpectedResponse
		vAssert(len(exp.Payloads) == nData, "one expected payload per response_data item")
		for i := 0; i < ND; i++ {
			if i < nData && i < len(exp.Payloads) {
				p := exp.Payloads[i]
				vAssert(len(p.Data) == 1 && p.Data[0] == byte(i+1), "expected payloads carry the response data in order")
				if streamType == 5 {
					// full duplex: ping-pong - the i-th response echoes the i-th request while requests last;
					// responses beyond the last request carry no request info (the server flushes them at the end)
					if i < nReq {
						vAssert(p.RequestInfo != nil && len(p.RequestInfo.Requests) == 1 && p.RequestInfo.Requests[0] == reqs[i], "full-duplex payload i echoes request i")
					} else {
						vAssert(p.RequestInfo == nil, "full-duplex payloads beyond the last request carry no request info")
					}
				} else {
					vAssert((p.RequestInfo != nil) == (i == 0), "server-stream / half-duplex: request info only in the first payload")
					if i == 0 && p.RequestInfo != nil {
						vAssert(len(p.RequestInfo.Requests) == nReq, "first payload echoes all requests")
					}
				}
			}
		}
		vAssert((exp.Error != nil) == hasErr, "expected error present iff the definition has one")
		if exp.Error != nil {
			// the servers append the request info to the error's own details only when no response was sent
			nd := 0
			if userDetail {
				nd = 1
			}
			if nData == 0 {
				nd++
			}
			vAssert(len(exp.Error.Details) == nd, "stream error: the definition's own details are kept; the request info is appended iff there is no response message")
			if nData == 0 && len(exp.Error.Details) == nd {
				// which requests the server has seen when it fails at once: a full-duplex server answers (here:
				// fails) upon the first request, the others read their whole input first
				ri := vReqInfoOf(exp.Error.Details[nd-1])
				if streamType == 5 {
					vAssert(ri != nil && len(ri.Requests) == 1, "immediate stream error, full duplex: the server fails upon the first request and echoes only that one")
				} else {
					vAssert(ri != nil && len(ri.Requests) == nReq, "immediate stream error, server stream / half duplex: all requests are echoed")
				}
			}
			if userDetail && len(exp.Error.Details) > 0 {
				vAssert(vIsUserDetail(exp.Error.Details[0]), "stream error: the definition's own detail comes first")
			}
		}
	}
}

func H02a_q() { h02a(3, 3) }


// H02n: a test case without a request (a parseable shape the runner cannot handle) is rejected with an error.
func H02n_q() {
	vSetEnumLists()
	s := &conformancev1.TestSuite{Name: "S", RelevantProtocols: []conformancev1.Protocol{1}, RelevantHttpVersions: []conformancev1.HTTPVersion{1},
		RelevantCodecs: []conformancev1.Codec{1}, RelevantCompressions: []conformancev1.Compression{1}}
	tc := &conformancev1.TestCase{}
	if vBool("hasRequest") {
		tc.Request = &conformancev1.ClientCompatRequest{TestName: "t", StreamType: 1}
	}
	s.TestCases = []*conformancev1.TestCase{tc}
	c0 := configCase{Version: 1, Protocol: 1, Codec: 1, Compression: 1, StreamType: 1}
	lib, err := newTestCaseLibrary(map[string]*conformancev1.TestSuite{"f.yaml": s}, []configCase{c0}, conformancev1.TestSuite_TEST_MODE_CLIENT) // obligation: no reachable panic
	if tc.Request == nil {
		vAssert(err != nil, "a test case without a request is rejected with an error")
	} else {
		vAssert(err == nil && len(lib.testCases) == 1, "a well-formed test case is expanded")
	}
}
