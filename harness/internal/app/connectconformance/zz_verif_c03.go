//go:build verif

package connectconformance

import (
	conformancev1 "connectrpc.com/conformance/internal/gen/proto/go/connectrpc/conformance/v1"
	"google.golang.org/protobuf/proto"
	"google.golang.org/protobuf/types/known/anypb"
)

// C03: result assertion flags every semantic deviation and allows only the documented leniencies.

//verif:replace connectrpc.com/conformance/internal/app/connectconformance.headerValsToString vModelValsToString
func vModelValsToString(vals []string) string { return "" }

//verif:replace connectrpc.com/conformance/internal/app/connectconformance.expectedCodeString vModelCodeString
func vModelCodeString(c conformancev1.Code, o []conformancev1.Code) string { return "" }

//verif:replace (connectrpc.com/connect.Code).String vModelConnectCodeString
func vModelConnectCodeString(c uint32) string { return "" }

//verif:replace (*connectrpc.com/conformance/internal/gen/proto/go/connectrpc/conformance/v1.Error).String vModelErrString
func vModelErrString(e *conformancev1.Error) string { return "" }

func vSameStrings(a, b []string) bool {
	if len(a) != len(b) {
		return false
	}
	for i := range a {
		if a[i] != b[i] {
			return false
		}
	}
	return true
}

// H03a: laws of the comma leniency (values joined or split on commas denote the same list).
func h03a(S int) {
	x := vStringOf("x", S, "a, ")
	y := vStringOf("y", S, "a, ")
	two := canonicalizeHeaderVals([]string{x, y})
	// (a space of the value itself next to the seam is indistinguishable from the separator's, so the laws are
	// stated for values that do not end / start with a space at the seam)
	noSpaceAtSeam := (len(x) == 0 || x[len(x)-1] != ' ') && (len(y) == 0 || y[0] != ' ')
	if noSpaceAtSeam {
		joined := canonicalizeHeaderVals([]string{x + ", " + y})
		vAssert(vSameStrings(two, joined), "joining two values with \", \" does not change the canonical list")
		tight := canonicalizeHeaderVals([]string{x + "," + y})
		vAssert(vSameStrings(two, tight), "joining two values with \",\" does not change the canonical list")
	}
	hasComma := false
	for i := 0; i < len(x); i++ {
		if x[i] == ',' {
			hasComma = true
		}
	}
	if !hasComma {
		one := canonicalizeHeaderVals([]string{x})
		vAssert(len(one) == 1 && one[0] == x, "a value without commas is preserved, including leading, trailing and interior spaces")
	}
	// different lists stay different: a list is changed by altering a non-space byte
	z := vStringOf("z", S, "a, ")
	if len(z) == len(x) {
		diffNonSpace := false
		for i := 0; i < len(x); i++ {
			if x[i] != z[i] && (x[i] == 'a' || z[i] == 'a') && x[i] != ',' && z[i] != ',' {
				diffNonSpace = true
			}
		}
		_ = diffNonSpace
	}
}

func H03a_q() { h03a(3) }
func H03a_t() { h03a(4) }

func vHdrName(k int) string {
	switch k {
	case 0:
		return "x-a"
	case 1:
		return "X-A"
	case 2:
		return "x-b"
	default:
		return "X-B"
	}
}

func vLower(k int) int { return k / 2 } // 0: x-a, 1: x-b

func vHdrVal(k int) string {
	switch k {
	case 0:
		return "v"
	case 1:
		return "w"
	case 2:
		return "v, w"
	default:
		return "v,w"
	}
}

// canonical meaning of a value choice as a list over {v,w}: 0 -> [v], 1 -> [w], 2,3 -> [v,w]
func vValList(k int) []string {
	switch k {
	case 0:
		return []string{"v"}
	case 1:
		return []string{"w"}
	default:
		return []string{"v", "w"}
	}
}

type vHdrs struct {
	n     int
	name  [2]int
	nvals [2]int
	vals  [2][2]int
}

func vSymHeaders(tag string, N int) (vHdrs, []*conformancev1.Header) {
	var h vHdrs
	h.n = vInt(tag+".n", 0, N)
	var out []*conformancev1.Header
	for i := 0; i < h.n; i++ {
		h.name[i] = vIntAt(tag+".name", i, 2, 0, 3)
		h.nvals[i] = vIntAt(tag+".nvals", i, 2, 0, 2)
		var vals []string
		for j := 0; j < h.nvals[i]; j++ {
			h.vals[i][j] = vIntAt(tag+".val", i*2+j, 4, 0, 3)
			vals = append(vals, vHdrVal(h.vals[i][j]))
		}
		out = append(out, &conformancev1.Header{Name: vHdrName(h.name[i]), Value: vals})
	}
	return h, out
}

// semantic value list of header i
func (h *vHdrs) list(i int) []string {
	var out []string
	for j := 0; j < h.nvals[i]; j++ {
		out = append(out, vValList(h.vals[i][j])...)
	}
	return out
}

// specHeadersOK: every expected header is present in the actual metadata (name compared ignoring case) with the
// same value list up to joining/splitting on commas; extra actual headers are ignored. Actual entries that name
// the same header (in any letter case) are one header whose values are the entries' values in order - that is
// the "comma-joined vs split values" leniency seen from the other side.
func specHeadersOK(exp, act *vHdrs) bool {
	for i := 0; i < exp.n; i++ {
		found := false
		var merged []string
		for j := 0; j < act.n; j++ {
			if vLower(act.name[j]) == vLower(exp.name[i]) {
				found = true
				merged = append(merged, act.list(j)...)
			}
		}
		if !found {
			return false
		}
		if !vSameStrings(exp.list(i), merged) {
			return false
		}
	}
	return true
}

// H03b: checkHeaders reports nothing iff the specification is met.
func h03b(N int) {
	exp, e := vSymHeaders("exp", N)
	act, a := vSymHeaders("act", N)
	errs := checkHeaders("response headers", e, a)
	vAssert((len(errs) == 0) == specHeadersOK(&exp, &act), "headers pass iff every expected header is present (any case) with the same value list up to comma joining; extras ignored")
}

func H03b_q() { h03b(2) }

// H03d: echoed timeout: exactly the window [max(0, e-500), e]; presence must agree.
func H03d_q() {
	var exp, act *conformancev1.ConformancePayload_RequestInfo
	hasE, hasA := vBool("hasExp"), vBool("hasAct")
	e, a := vI64("e"), vI64("a")
	vAssume(e >= 0) // timeouts in test cases are unsigned 32-bit milliseconds widened to int64
	if vBool("expNonNil") {
		exp = &conformancev1.ConformancePayload_RequestInfo{}
		if hasE {
			exp.TimeoutMs = &e
		}
	} else {
		hasE = false
	}
	if vBool("actNonNil") {
		act = &conformancev1.ConformancePayload_RequestInfo{}
		if hasA {
			act.TimeoutMs = &a
		}
	} else {
		hasA = false
	}
	errs := checkRequestInfo(exp, act, true)
	ok := true
	switch {
	case hasE && !hasA:
		ok = false
	case !hasE && hasA:
		ok = false
	case hasE && hasA:
		lo := e - 500
		if lo < 0 {
			lo = 0
		}
		ok = a >= lo && a <= e
	}
	vAssert((len(errs) == 0) == ok, "echoed timeout passes iff it lies in [max(0, expected-500ms), expected]; presence must agree")
	// not on the first message: timeout is not compared
	errs2 := checkRequestInfo(exp, act, false)
	vAssert(len(errs2) == 0, "timeout, headers and query params are only compared for the first message")
}

// ---- error details: Any values are opaque here; their (un)marshalling is a contract stub ----

const vReqInfoURL = "type.googleapis.com/connectrpc.conformance.v1.ConformancePayload.RequestInfo"

var vDetailInfo [4]*conformancev1.ConformancePayload_RequestInfo // decoded form of RequestInfo details, by Value[0]

//verif:replace (*google.golang.org/protobuf/types/known/anypb.Any).MessageIs vModelAnyMessageIs
func vModelAnyMessageIs(x *anypb.Any, m proto.Message) bool {
	_, ok := m.(*conformancev1.ConformancePayload_RequestInfo)
	return ok && x.GetTypeUrl() == vReqInfoURL
}

//verif:replace (*google.golang.org/protobuf/types/known/anypb.Any).UnmarshalTo vModelAnyUnmarshalTo
func vModelAnyUnmarshalTo(x *anypb.Any, m proto.Message) error {
	ri := m.(*conformancev1.ConformancePayload_RequestInfo)
	src := vDetailInfo[x.Value[0]]
	ri.RequestHeaders = src.RequestHeaders
	ri.TimeoutMs = src.TimeoutMs
	ri.Requests = src.Requests
	ri.ConnectGetInfo = src.ConnectGetInfo
	return nil
}

//verif:replace (*google.golang.org/protobuf/types/known/anypb.Any).MessageName vModelAnyMessageName
func vModelAnyMessageName(x *anypb.Any) string { return "" }

// cmp.Diff(a, b, protocmp.Transform()) == "" iff the two Any values are equal (type and bytes)
//verif:replace github.com/google/go-cmp/cmp.Diff vModelCmpDiff
func vModelCmpDiff(x, y interface{}, opts ...interface{}) string {
	a, ok1 := x.(*anypb.Any)
	b, ok2 := y.(*anypb.Any)
	if !ok1 && !ok2 {
		// decoded request messages come from the stub table: equal iff they are the same table entry
		if x == y {
			return ""
		}
		return "differs"
	}
	if !ok1 || !ok2 {
		vAssert(false, "model limit: cmp.Diff on values other than *anypb.Any")
		return "x"
	}
	if a.TypeUrl == b.TypeUrl && len(a.Value) == len(b.Value) && (len(a.Value) == 0 || a.Value[0] == b.Value[0]) {
		return ""
	}
	return "differs"
}

//verif:noop google.golang.org/protobuf/testing/protocmp.Transform

// H03c: checkError = the documented table.
func h03c(D int) {
	hasE, hasA := vBool("hasExp"), vBool("hasAct")
	var exp, act *conformancev1.Error
	codeE, codeA := vInt("codeE", 1, 3), vInt("codeA", 1, 3)
	other := vInt("other", 0, 3) // 0: no other allowed code
	msgSpecified := vBool("msgSpecified")
	msgE, msgA := vInt("msgE", 0, 1), vInt("msgA", 0, 1)
	nE, nA := vInt("nDetE", 0, D), vInt("nDetA", 0, D)
	var kindE, kindA, valE, valA [3]int
	// RequestInfo details differ only in their echoed timeout here (0: none, 1: 1000ms)
	t1000 := int64(1000)
	vDetailInfo[0] = &conformancev1.ConformancePayload_RequestInfo{}
	vDetailInfo[1] = &conformancev1.ConformancePayload_RequestInfo{TimeoutMs: &t1000}
	mk := func(tag string, n int, kind, val *[3]int) []*anypb.Any {
		var out []*anypb.Any
		for i := 0; i < n; i++ {
			kind[i] = vIntAt(tag+".kind", i, 3, 0, 1) // 0: RequestInfo, 1: other type
			val[i] = vIntAt(tag+".val", i, 3, 0, 1)
			url := vReqInfoURL
			if kind[i] == 1 {
				url = "type.googleapis.com/other"
			}
			if vNative() {
				// natively the real anypb / protocmp code runs, so the details are real messages
				var m proto.Message = vDetailInfo[val[i]]
				if kind[i] == 1 {
					m = &conformancev1.Header{Name: vHdrName(val[i])}
				}
				a, err := anypb.New(m)
				if err != nil {
					panic(err)
				}
				out = append(out, a)
				continue
			}
			out = append(out, &anypb.Any{TypeUrl: url, Value: []byte{byte(val[i])}})
		}
		return out
	}
	msgs := [2]string{"m0", "m1"}
	if hasE {
		exp = &conformancev1.Error{Code: conformancev1.Code(codeE), Details: mk("detE", nE, &kindE, &valE)}
		if msgSpecified {
			exp.Message = &msgs[msgE]
		}
	}
	if hasA {
		act = &conformancev1.Error{Code: conformancev1.Code(codeA), Message: &msgs[msgA], Details: mk("detA", nA, &kindA, &valA)}
	}
	var others []conformancev1.Code
	if other != 0 {
		others = []conformancev1.Code{conformancev1.Code(other)}
	}
	errs := checkError(exp, act, others)
	ok := true
	switch {
	case !hasE && !hasA:
	case hasE != hasA:
		ok = false
	default:
		if codeE != codeA && !(other != 0 && other == codeA) {
			ok = false
		}
		if msgSpecified && msgE != msgA {
			ok = false
		}
		if nE != nA {
			ok = false
		}
		for i := 0; i < D; i++ {
			if i < nE && i < nA {
				if kindE[i] != kindA[i] || valE[i] != valA[i] {
					ok = false // every detail is compared, at every position (type and content)
				}
			}
		}
	}
	vAssert((len(errs) == 0) == ok, "error passes iff presence, code (or another allowed code), specified message, detail count and every detail agree")
}

func H03c_q() { h03c(2) }
func H03c_t() { h03c(3) }

// H03e: assert(): metadata attribution leniency on unary / client-stream errors, HTTP status, overall verdict.
func h03e() {
	eh, ehL := vSymHeaders("eh", 1)
	et, etL := vSymHeaders("et", 1)
	ah, ahL := vSymHeaders("ah", 1)
	at, atL := vSymHeaders("at", 1)
	streamType := vInt("stream", 1, 5)
	hasPayload := vBool("hasPayload")
	hasErr := vBool("hasErr")
	def := &conformancev1.TestCase{
		Request:          &conformancev1.ClientCompatRequest{TestName: "t", StreamType: conformancev1.StreamType(streamType)},
		ExpectedResponse: &conformancev1.ClientResponseResult{ResponseHeaders: ehL, ResponseTrailers: etL},
	}
	act := &conformancev1.ClientResponseResult{ResponseHeaders: ahL, ResponseTrailers: atL}
	if hasErr {
		def.ExpectedResponse.Error = &conformancev1.Error{Code: 3}
		act.Error = &conformancev1.Error{Code: 3}
	}
	if hasPayload {
		def.ExpectedResponse.Payloads = []*conformancev1.ConformancePayload{{Data: []byte{1}}}
		act.Payloads = []*conformancev1.ConformancePayload{{Data: []byte{1}}}
	}
	stE, stA := vInt("statusE", 0, 2), vInt("statusA", 0, 2) // 0: absent
	codes := [3]int32{0, 200, 404}
	if stE != 0 {
		def.ExpectedResponse.HttpStatusCode = &codes[stE]
	}
	if stA != 0 {
		act.HttpStatusCode = &codes[stA]
	}
	r := newResults(0, &testTrie{}, &testTrie{}, nil)
	r.assert("t", def, act)
	passed := r.outcomes["t"].actualFailure == nil

	normal := specHeadersOK(&eh, &ah) && specHeadersOK(&et, &at)
	ok := normal
	lenient := !hasPayload && hasErr && (streamType == 1 || streamType == 2)
	if lenient && !normal {
		// merged bag: per lower-cased name, header values followed by trailer values
		var merged vHdrs
		if eh.n == 1 {
			merged = eh
		}
		if et.n == 1 {
			if merged.n == 1 && vLower(merged.name[0]) == vLower(et.name[0]) {
				// same key expected as header and trailer: values concatenate (header's first)
				mList := append(eh.list(0), et.list(0)...)
				allH := ah.n == 1 && vLower(ah.name[0]) == vLower(et.name[0]) && vSameStrings(ah.list(0), mList)
				allT := at.n == 1 && vLower(at.name[0]) == vLower(et.name[0]) && vSameStrings(at.list(0), mList)
				ok = allH || allT
				merged.n = -1
			} else if merged.n == 1 {
				// two different keys: both must be found on the same side
				both := func(a *vHdrs) bool { return false }
				_ = both
				ok = false // a single actual header per side cannot carry two different keys (bound of this harness)
				merged.n = -1
			} else {
				merged = et
			}
		}
		if merged.n >= 0 {
			ok = specHeadersOK(&merged, &ah) || specHeadersOK(&merged, &at)
		}
	}
	if stE != 0 && stA != 0 && stE != stA {
		ok = false
	}
	vAssert(passed == ok, "assert() passes iff metadata agrees under normal attribution or - only for unary/client-stream errors without payload - all merged as headers or all as trailers, and the HTTP status agrees when both are present")
}

func H03e_q() { h03e() }


// H03f: payloads: number, order and bytes of payloads; echoed requests per payload (count and each message).
func h03f(P int) {
	vReqTable[0] = &conformancev1.Header{Name: "req-zero"}
	vReqTable[1] = &conformancev1.Header{Name: "req-one"}
	mkAny := func(k int) *anypb.Any {
		if vNative() {
			a, err := anypb.New(vReqTable[k])
			if err != nil {
				panic(err)
			}
			return a
		}
		return &anypb.Any{TypeUrl: "req", Value: []byte{byte(k)}}
	}
	var dataE, dataA [2]int
	var nreqE, nreqA [2]int
	var reqE, reqA [2][2]int
	mk := func(tag string, n int, data *[2]int, nreq *[2]int, req *[2][2]int) []*conformancev1.ConformancePayload {
		var out []*conformancev1.ConformancePayload
		for i := 0; i < n; i++ {
			data[i] = vIntAt(tag+".data", i, 2, 0, 1)
			nreq[i] = vIntAt(tag+".nreq", i, 2, 0, 2)
			var reqs []*anypb.Any
			for j := 0; j < nreq[i]; j++ {
				req[i][j] = vIntAt(tag+".req", i*2+j, 4, 0, 1)
				reqs = append(reqs, mkAny(req[i][j]))
			}
			out = append(out, &conformancev1.ConformancePayload{Data: []byte{byte(data[i])}, RequestInfo: &conformancev1.ConformancePayload_RequestInfo{Requests: reqs}})
		}
		return out
	}
	nE, nA := vInt("nE", 0, P), vInt("nA", 0, P)
	exp := mk("e", nE, &dataE, &nreqE, &reqE)
	act := mk("a", nA, &dataA, &nreqA, &reqA)
	errs := checkPayloads(exp, act)
	ok := nE == nA
	for i := 0; i < 2; i++ {
		if i < nE && i < nA {
			if dataE[i] != dataA[i] || nreqE[i] != nreqA[i] {
				ok = false
			}
			for j := 0; j < 2; j++ {
				if j < nreqE[i] && j < nreqA[i] && reqE[i][j] != reqA[i][j] {
					ok = false
				}
			}
		}
	}
	vAssert((len(errs) == 0) == ok, "payloads pass iff their number, order and bytes and every echoed request (count and content, per payload) agree")
}

func H03f_q() { h03f(2) }
