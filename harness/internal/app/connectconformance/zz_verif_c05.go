//go:build verif

package connectconformance

import (
	conformancev1 "connectrpc.com/conformance/internal/gen/proto/go/connectrpc/conformance/v1"
	"google.golang.org/protobuf/types/known/anypb"
)

// C05 (work-list clauses): gRPC-peer permutations are issued only for cases those peers support and under their
// marked names; run/skip filtering keeps exactly the accepted names. (Request completion and the server-instance
// match are checked by the C11 harness H11.)

func h05a(N int) {
	lib := &testCaseLibrary{testCaseNames: map[string]string{}}
	clientGRPC, serverGRPC := vBool("clientGRPC"), vBool("serverGRPC")
	var cases []*conformancev1.TestCase
	var proto, ver, codec, comp [2]int
	var tls, rawReq, rawResp [2]bool
	var idem [2]bool
	// the first full name contains its simple name twice (a suite called like its test case): the marker goes before the LAST component
	names := [2]string{"one/x/one", "S/y/two"}
	simple := [2]string{"one", "two"}
	for i := 0; i < N; i++ {
		proto[i], ver[i] = vIntAt("proto", i, 2, 1, 3), vIntAt("ver", i, 2, 1, 3)
		codec[i], comp[i] = vIntAt("codec", i, 2, 1, 2), vIntAt("comp", i, 2, 1, 4)
		tls[i], rawReq[i], rawResp[i] = vBoolAt("tls", i, 2), vBoolAt("rawReq", i, 2), vBoolAt("rawResp", i, 2)
		req := &conformancev1.ClientCompatRequest{TestName: names[i], Protocol: conformancev1.Protocol(proto[i]), HttpVersion: conformancev1.HTTPVersion(ver[i]),
			Codec: conformancev1.Codec(codec[i]), Compression: conformancev1.Compression(comp[i]), StreamType: 1}
		if tls[i] {
			req.ServerTlsCert = []byte("PLACEHOLDER")
		}
		idem[i] = vBoolAt("idempotent", i, 2)
		if idem[i] {
			// the Connect-only RPC of the service: neither grpc-go peer implements it
			m := "IdempotentUnary"
			req.Method = &m
		}
		if rawReq[i] {
			req.RawRequest = &conformancev1.RawHTTPRequest{Verb: "POST"}
		}
		def := &conformancev1.UnaryResponseDefinition{}
		if rawResp[i] {
			def.RawResponse = &conformancev1.RawHTTPResponse{StatusCode: 200}
		}
		msg := &conformancev1.UnaryRequest{ResponseDefinition: def}
		vReqTable[i] = msg
		if vNative() {
			a, err := anypb.New(msg)
			if err != nil {
				panic(err)
			}
			req.RequestMessages = []*anypb.Any{a}
		} else {
			req.RequestMessages = []*anypb.Any{{TypeUrl: "req", Value: []byte{byte(i)}}}
		}
		lib.testCaseNames[names[i]] = simple[i]
		cases = append(cases, &conformancev1.TestCase{Request: req})
	}
	out := lib.filterGRPCImplTestCases(cases, clientGRPC, serverGRPC)
	if !clientGRPC && !serverGRPC {
		vAssert(len(out) == N, "without gRPC peers the work list is unchanged")
		return
	}
	want := 0
	for i := 0; i < N; i++ {
		// what the gRPC reference peers support (docs: grpc-go client speaks only gRPC; grpc-go server gRPC and gRPC-Web)
		okProto := proto[i] == 2 || (proto[i] == 3 && !clientGRPC)
		okVer := (proto[i] == 2 && ver[i] == 2) || (proto[i] == 3 && (ver[i] == 1 || ver[i] == 2))
		supported := okProto && okVer && codec[i] == 1 && (comp[i] == 1 || comp[i] == 2) && !tls[i] &&
			!(rawReq[i] && clientGRPC) && !(rawResp[i] && serverGRPC) && !idem[i]
		marker := "(grpc impls)"
		if !serverGRPC {
			marker = "(grpc client impl)"
		} else if !clientGRPC {
			marker = "(grpc server impl)"
		}
		wantName := names[i][:len(names[i])-len(simple[i])] + marker + "/" + simple[i]
		found := 0
		for _, tc := range out {
			if tc.Request.TestName == wantName {
				found++
				vAssert(tc.Request.Protocol == conformancev1.Protocol(proto[i]) && tc.Request.HttpVersion == conformancev1.HTTPVersion(ver[i]), "the marked permutation is a copy of the original case")
			}
		}
		if supported {
			want++
			vAssert(found == 1, "a case the gRPC peers support is issued exactly once under its marked name")
		} else {
			vAssert(found == 0, "a case the gRPC peers do not support is not issued for them")
		}
		vAssert(cases[i].Request.TestName == names[i], "the original permutation keeps its name")
	}
	vAssert(len(out) == want, "nothing else is issued")
}

func H05a_q() { h05a(2) }

// H05f: run/skip filtering keeps exactly the accepted names (nil tries included).
func H05f_q() {
	mk := func(tag string) *testTrie {
		switch vInt(tag, 0, 3) {
		case 0:
			return nil
		case 1:
			return parsePatterns([]string{"S/**"})
		case 2:
			return parsePatterns([]string{"S/x/*"})
		default:
			return parsePatterns([]string{"T/one"})
		}
	}
	run, skip := mk("run"), mk("skip")
	runKind, skipKind := vInt("run", 0, 3), vInt("skip", 0, 3)
	names := [3]string{"S/x/one", "S/y/two", "T/one"}
	var cases []*conformancev1.TestCase
	for i := 0; i < 3; i++ {
		cases = append(cases, &conformancev1.TestCase{Request: &conformancev1.ClientCompatRequest{TestName: names[i]}})
	}
	out := newFilter(run, skip).apply(cases)
	matches := func(kind, i int) bool {
		switch kind {
		case 1:
			return i == 0 || i == 1
		case 2:
			return i == 0
		case 3:
			return i == 2
		}
		return false
	}
	k := 0
	for i := 0; i < 3; i++ {
		acc := (runKind == 0 || matches(runKind, i)) && !(skipKind != 0 && matches(skipKind, i))
		if acc {
			vAssert(k < len(out) && out[k].Request.TestName == names[i], "an accepted permutation stays in the work list, in order")
			k++
		}
	}
	vAssert(len(out) == k, "a permutation is run iff it matches some --run pattern (or none were given) and no --skip pattern")
}
