//go:build verif

package connectconformance

import (
	"errors"
	"os"

	"connectrpc.com/conformance/internal"
	conformancev1 "connectrpc.com/conformance/internal/gen/proto/go/connectrpc/conformance/v1"
)

// C04 (verdict clause of Run): the runner's verdict is "report() succeeded and run() had no error", and the
// report - every failing case named, the totals - is printed whether or not run() also ended with an error.
//
// Symbolically run() is cut away (it returns one case that could not be set up and, depending on a symbolic
// flag, an error as well); natively the real Run() is driven with a server command that does not exist (every
// case becomes a setup failure) and a client that swallows its input and exits with status 0 or 3.

var (
	vRunRetResults *testResults
	vRunRetErr     error
	errVerifRun    = errors.New("verif: client process failed")
)

func vModelRunStub(configCases []configCase, knownFailing, knownFlaky, run, skip *testTrie,
	allSuites map[string]*conformancev1.TestSuite, logPrinter, errPrinter internal.Printer, flags *Flags) (*testResults, error) {
	return vRunRetResults, vRunRetErr
}

func vModelParseConfigStub(configFileName string, data []byte) ([]configCase, error) {
	return []configCase{{Version: 1, Protocol: 1, Codec: 1, Compression: 1, StreamType: 1}}, nil
}

func vModelLoadSuitesFromFiles(paths []string) (map[string][]byte, error) { return map[string][]byte{}, nil }

func vModelParseTestSuites(testFileData map[string][]byte) (map[string]*conformancev1.TestSuite, error) {
	return map[string]*conformancev1.TestSuite{}, nil
}

type vLinePrinter struct{ lines int }

func (p *vLinePrinter) Printf(msg string, args ...any)                  { p.lines++ }
func (p *vLinePrinter) PrefixPrintf(prefix, msg string, args ...any) {}

func H04r_q() {
	hasErr := vBool("runErr")
	flags := &Flags{ServerCommand: []string{"/nonexistent/verif-no-such-server"}, MaxServers: 2, Parallelism: 1, TestFiles: []string{"verif-suite.yaml"}}
	if vNative() {
		f, err := os.CreateTemp("", "verif-suite-*.yaml")
		if err != nil {
			panic(err)
		}
		defer os.Remove(f.Name())
		if _, err := f.WriteString("name: VerifSuite\ntestCases:\n- request:\n    testName: a\n    streamType: STREAM_TYPE_UNARY\n"); err != nil {
			panic(err)
		}
		f.Close()
		flags.TestFiles = []string{f.Name()}
		if hasErr {
			flags.ClientCommand = []string{"sh", "-c", "cat >/dev/null; exit 3"}
		} else {
			flags.ClientCommand = []string{"sh", "-c", "cat >/dev/null"}
		}
	} else {
		flags.ClientCommand = []string{"client"}
		vRunRetResults = newResults(1, &testTrie{}, &testTrie{}, nil)
		vRunRetResults.failedToStart([]*conformancev1.TestCase{{Request: &conformancev1.ClientCompatRequest{TestName: "VerifSuite/a"}}}, errVerifStart)
		vRunRetErr = nil
		if hasErr {
			vRunRetErr = errVerifRun
		}
	}
	rec, errRec := &vRecPrinter{}, &vLinePrinter{}
	ok, err := Run(flags, rec, errRec)
	vAssert(err == nil, "a run that got as far as running cases reports through its verdict, not through an error")
	vAssert(!ok, "the run does not succeed when a case could not be set up (or when run() ended with an error)")
	vAssert(rec.totalsLines == 1, "the totals are printed exactly once, also when run() ended with an error")
	vAssert(rec.nFailed >= 1 && rec.nFailed == rec.failed, "every failing case is named in the output, also when run() ended with an error")
	vAssert((errRec.lines >= 1) == hasErr, "an error of the run itself is printed exactly when there is one")
}
