//go:build verif

package connectconformance

import (
	"bufio"
	"context"
	"errors"
	"io"
	"strings"
	"time"

	conformancev1 "connectrpc.com/conformance/internal/gen/proto/go/connectrpc/conformance/v1"
	"google.golang.org/protobuf/proto"
)

// C11: a server batch always yields exactly one outcome per case and terminates, whatever goes wrong
// (sequentialised fault matrix).

var errVerifStart = errors.New("verif: cannot start server")

// ---- fake context (context.WithCancel is replaced so that no goroutines/timers are involved) ----
type vCancelCtx struct {
	parent context.Context
	err    error
}

func (c *vCancelCtx) Deadline() (time.Time, bool) { return time.Time{}, false }
func (c *vCancelCtx) Done() <-chan struct{}       { return nil }
func (c *vCancelCtx) Err() error                  { return c.err }
func (c *vCancelCtx) Value(k any) any             { return nil }

//verif:replace context.WithCancel vModelWithCancel
func vModelWithCancel(parent context.Context) (context.Context, context.CancelFunc) {
	c := &vCancelCtx{parent: parent}
	return c, func() {
		if c.err == nil {
			c.err = context.Canceled
		}
	}
}

// ---- the server process: stdin / stdout with scripted faults ----
type vSrvEnv struct {
	writeErr, closeErr, readErr bool
	noCert                      bool
	emptyHost                   bool
	gotReq                      *conformancev1.ServerCompatRequest
	stdinClosed                 int
}

var vSrv *vSrvEnv

type vSrvIn struct{ writes int }

func (w *vSrvIn) Write(p []byte) (int, error) {
	w.writes++
	if vSrv.writeErr {
		return 0, errVerifIO
	}
	return len(p), nil
}
func (w *vSrvIn) Close() error {
	vSrv.stdinClosed++
	if vSrv.closeErr {
		return errVerifIO
	}
	return nil
}

type vSrvOut struct{ buf []byte; served bool }

func vSrvResponse() *conformancev1.ServerCompatResponse {
	r := &conformancev1.ServerCompatResponse{Host: "srv.example", Port: 4711, PemCert: []byte{1, 2, 3}}
	if vSrv.emptyHost {
		r.Host = ""
	}
	if vSrv.noCert {
		r.PemCert = nil
	}
	return r
}

func (r *vSrvOut) Read(p []byte) (int, error) {
	if vSrv.readErr {
		return 0, errVerifIO
	}
	if !r.served {
		data, err := proto.Marshal(vSrvResponse())
		if err != nil {
			panic(err)
		}
		r.buf = append([]byte{byte(len(data) >> 24), byte(len(data) >> 16), byte(len(data) >> 8), byte(len(data))}, data...)
		r.served = true
	}
	if len(r.buf) == 0 {
		return 0, io.EOF
	}
	n := copy(p, r.buf)
	r.buf = r.buf[n:]
	return n, nil
}

//verif:replace connectrpc.com/conformance/internal.WriteDelimitedMessage[*connectrpc.com/conformance/internal/gen/proto/go/connectrpc/conformance/v1.ServerCompatRequest] vModelWriteSrvReq
func vModelWriteSrvReq(out io.Writer, msg *conformancev1.ServerCompatRequest) error {
	vSrv.gotReq = msg
	if vSrv.writeErr {
		return errVerifIO
	}
	return nil
}

//verif:replace connectrpc.com/conformance/internal.ReadDelimitedMessage[*connectrpc.com/conformance/internal/gen/proto/go/connectrpc/conformance/v1.ServerCompatResponse] vModelReadSrvResp
func vModelReadSrvResp(in io.Reader, msg *conformancev1.ServerCompatResponse, source string, timeout time.Duration, maxSize int) error {
	if vSrv.readErr {
		return errVerifIO
	}
	r := vSrvResponse()
	msg.Host, msg.Port, msg.PemCert = r.Host, r.Port, r.PemCert
	return nil
}

//verif:replace google.golang.org/protobuf/proto.Clone vModelProtoClone
func vModelProtoClone(m proto.Message) proto.Message {
	switch r := m.(type) {
	case *conformancev1.ClientCompatRequest:
		return vCloneRequest(r)
	case *conformancev1.TestCase:
		c := &conformancev1.TestCase{
			Request: vCloneRequest(r.Request), ExpandRequests: r.ExpandRequests, ExpectedResponse: r.ExpectedResponse,
			OtherAllowedErrorCodes: r.OtherAllowedErrorCodes,
		}
		return c
	}
	vAssert(false, "model limit: proto.Clone on a message other than ClientCompatRequest / TestCase")
	return m
}

func vCloneRequest(r *conformancev1.ClientCompatRequest) *conformancev1.ClientCompatRequest {
	if r == nil {
		return nil
	}
	return &conformancev1.ClientCompatRequest{
		TestName: r.TestName, HttpVersion: r.HttpVersion, Protocol: r.Protocol, Codec: r.Codec, Compression: r.Compression,
		Host: r.Host, Port: r.Port, ServerTlsCert: r.ServerTlsCert, ClientTlsCreds: r.ClientTlsCreds, MessageReceiveLimit: r.MessageReceiveLimit,
		Service: r.Service, Method: r.Method, StreamType: r.StreamType, UseGetHttpMethod: r.UseGetHttpMethod,
		RequestHeaders: append([]*conformancev1.Header(nil), r.RequestHeaders...), RequestMessages: r.RequestMessages,
		TimeoutMs: r.TimeoutMs, RequestDelayMs: r.RequestDelayMs, Cancel: r.Cancel, RawRequest: r.RawRequest,
	}
}

// ---- the client: per send, a scripted behaviour ----
const vBatchMax = 3

type vBatchClient struct {
	proc     *vProc
	sends    int
	kind     [vBatchMax]int // 0 refuse (error), 1 answer now: response, 2 answer now: error result, 3 answer now: callback error, 4 answer later, 5 answer now: neither
	owed     [vBatchMax]func(string, *conformancev1.ClientCompatResponse, error)
	owedName [vBatchMax]string
	isOwed   [vBatchMax]bool
	got      [vBatchMax]*conformancev1.ClientCompatRequest
	diesAt   int // the server process ends just before this send (-1: never)
	exitErr  error // what the server process ended with (nil: exit status 0)
}

func (c *vBatchClient) sendRequest(req *conformancev1.ClientCompatRequest, whenDone func(string, *conformancev1.ClientCompatResponse, error)) error {
	i := c.sends
	c.sends++
	c.got[i] = req
	switch c.kind[i] {
	case 0:
		return errClosed
	case 1:
		whenDone(req.TestName, &conformancev1.ClientCompatResponse{TestName: req.TestName, Result: &conformancev1.ClientCompatResponse_Response{Response: &conformancev1.ClientResponseResult{}}}, nil)
	case 2:
		whenDone(req.TestName, &conformancev1.ClientCompatResponse{TestName: req.TestName, Result: &conformancev1.ClientCompatResponse_Error{Error: &conformancev1.ClientErrorResult{Message: "boom"}}}, nil)
	case 3:
		whenDone(req.TestName, nil, &failedToGetResultError{errVerifIO})
	case 5:
		whenDone(req.TestName, &conformancev1.ClientCompatResponse{TestName: req.TestName}, nil)
	default:
		c.owed[i], c.owedName[i], c.isOwed[i] = whenDone, req.TestName, true
	}
	// the server may die right after this request was handed over
	if c.diesAt == i+1 && c.proc.nDone > 0 {
		c.proc.doneFns[0](c.exitErr)
	}
	return nil
}
func (c *vBatchClient) closeSend()              {}
func (c *vBatchClient) waitForResponses() error { return nil }
func (c *vBatchClient) isRunning() bool         { return true }
func (c *vBatchClient) stop()                   {}

// resolve: the client's output reader eventually answers (or fails) every request it accepted
func (c *vBatchClient) resolve() {
	for i := 0; i < vBatchMax; i++ {
		if c.isOwed[i] {
			c.isOwed[i] = false
			c.owed[i](c.owedName[i], nil, &failedToGetResultError{errNoOutcome})
		}
	}
}

var vBatch *vBatchClient

// vOnBlock: while the runner waits for outstanding answers, the client delivers them.
func vOnBlock() {
	if vBatch != nil {
		vBatch.resolve()
	}
}

func vBatchName(i int) string {
	switch i {
	case 0:
		return "s/one"
	case 1:
		return "s/two"
	default:
		return "s/three"
	}
}

func h11(N int) {
	vSrv = &vSrvEnv{writeErr: vBool("srvWriteErr"), closeErr: vBool("srvCloseErr"), readErr: vBool("srvReadErr"), noCert: vBool("noCert"), emptyHost: vBool("emptyHost")}
	startErr := vBool("startErr")
	useTLS := vBool("useTLS")
	useCerts := vBool("useCerts")
	vAssume(useTLS || !useCerts) // a server instance uses client certificates only with TLS
	proc := &vProc{}
	client := &vBatchClient{proc: proc, diesAt: vInt("diesAt", -1, N), exitErr: errVerifExit}
	if vBool("exitClean") {
		client.exitErr = nil // a server that goes away with exit status 0 is just as gone
	}
	vBatch = client
	var cases []*conformancev1.TestCase
	for i := 0; i < N; i++ {
		client.kind[i] = vIntAt("kind", i, vBatchMax, 0, 5)
		cases = append(cases, &conformancev1.TestCase{
			Request:          &conformancev1.ClientCompatRequest{TestName: vBatchName(i), StreamType: 1},
			ExpectedResponse: &conformancev1.ClientResponseResult{},
		})
	}
	results := newResults(N, &testTrie{}, &testTrie{}, nil)
	start := func(ctx context.Context, pipeStderr bool) (*process, error) {
		if startErr {
			return nil, errVerifStart
		}
		return &process{processController: proc, stdin: &vSrvIn{}, stdout: &vSrvOut{}}, nil
	}
	meta := serverInstance{protocol: 1, httpVersion: 1, useTLS: useTLS, useTLSClientCerts: useCerts}
	rec := &vRecPrinter{}
	runTestCasesForServer(context.Background(), false, false, meta, cases,
		&conformancev1.TLSCreds{Cert: []byte{9}}, &conformancev1.TLSCreds{Cert: []byte{7}, Key: []byte{8}}, start, rec, rec, results, client, nil, false)

	setupFailed := startErr || vSrv.writeErr || vSrv.closeErr || vSrv.readErr || (useTLS && vSrv.noCert)
	if setupFailed {
		for i := 0; i < N; i++ {
			o, ok := results.outcomes[vBatchName(i)]
			vAssert(ok && o.setupError && o.actualFailure != nil, "if the server cannot be set up, every case of the batch is recorded as a setup error")
		}
		vAssert(client.sends == 0, "no request is sent when the server could not be set up")
		if !startErr {
			vAssert(proc.aborted > 0, "a started server is asked to stop")
		}
		return
	}
	// the server dies before send number diesAt (0-based) - i.e. the runner sees it when it is about to send case diesAt
	crashed := client.diesAt >= 0 && client.diesAt < N
	refusedAt := -1
	for i := 0; i < N; i++ {
		if refusedAt < 0 && i < client.sends && client.kind[i] == 0 {
			refusedAt = i
		}
	}
	if !crashed || (refusedAt >= 0 && refusedAt < client.diesAt) {
		// the function waited for all outstanding answers before it returned: every case has its outcome now
		for i := 0; i < N; i++ {
			_, ok := results.outcomes[vBatchName(i)]
			vAssert(ok, "when the batch function returns, every case of the batch has an outcome")
		}
	}
	if crashed && client.diesAt >= 1 && (refusedAt < 0 || refusedAt >= client.diesAt) {
		vAssert(client.sends == client.diesAt, "once the server process has ended - with or without an error - no further case is handed to the client")
	}
	// quiescence: the client answers what it still owes (the crash path deliberately returns before that)
	client.resolve()
	for i := 0; i < N; i++ {
		o, ok := results.outcomes[vBatchName(i)]
		vAssert(ok, "every case of the batch has an outcome in the end")
		if !ok {
			continue
		}
		sent := i < client.sends
		switch {
		case !sent:
			vAssert(o.setupError && o.actualFailure != nil, "a case that was never handed to the client is a setup error")
			if crashed && refusedAt < 0 {
				// the client is healthy, so the run's verdict rests on report(): the case must count as failed,
				// not as one that "could not be run" (which report() leaves out of the failures)
				var cnr *couldNotRunError
				vAssert(!errors.As(o.actualFailure, &cnr), "a case not run because the server died counts against success")
			}
		case client.kind[i] == 0:
			vAssert(o.setupError && o.actualFailure != nil, "a case whose send was refused is a setup error")
		case client.kind[i] == 1:
			vAssert(!o.setupError && o.actualFailure == nil, "an answered case keeps its own verdict (pass)")
		case client.kind[i] == 2 || client.kind[i] == 5:
			vAssert(!o.setupError && o.actualFailure != nil, "an answered case keeps its own verdict (failure)")
		default:
			vAssert(o.setupError && o.actualFailure != nil, "a case that never got an answer is a setup error")
		}
	}
	vAssert(proc.aborted > 0, "the server is asked to stop afterwards")
	// request completion (shared with C05): host default, port, certificate, test-name header
	for i := 0; i < N; i++ {
		if i < client.sends && client.got[i] != nil {
			r := client.got[i]
			wantHost := "srv.example"
			if vSrv.emptyHost {
				wantHost = "127.0.0.1"
			}
			vAssert(r.Host == wantHost && r.Port == 4711, "the request carries the server's actual host (default if empty) and port")
			vAssert((len(r.ServerTlsCert) > 0) == !vSrv.noCert, "the request carries the server's certificate")
			n := len(r.RequestHeaders)
			vAssert(n >= 1 && r.RequestHeaders[n-1].Name == "x-test-case-name" && len(r.RequestHeaders[n-1].Value) == 1 && r.RequestHeaders[n-1].Value[0] == vBatchName(i), "the test name is added to the request headers")
			vAssert(len(cases[i].Request.RequestHeaders) == 0 && cases[i].Request.Port == 0, "the test case definition itself is not modified")
			vAssert((r.ClientTlsCreds != nil) == useCerts, "client credentials are handed to the client exactly when the instance uses client certificates")
		}
	}
	if vSrv.gotReq != nil {
		vAssert((vSrv.gotReq.ServerCreds != nil) == useTLS, "server credentials are sent exactly when the instance uses TLS")
		vAssert((len(vSrv.gotReq.ClientTlsCert) > 0) == useCerts, "the server is told to require client certificates exactly when the instance uses them")
		vAssert(vSrv.gotReq.UseTls == useTLS && vSrv.gotReq.Protocol == 1 && vSrv.gotReq.HttpVersion == 1, "the server is started for exactly the instance's protocol, HTTP version and TLS mode")
	}
}

func H11_q() { h11(2) }
func H11_t() { h11(3) }

// ---- reference server stderr: feedback lines are attributed to the named case, everything else is passed on ----

var vStderrLines []string // each element is what one ReadString('\n') returns; the last one comes with io.EOF
var vStderrPos int

//verif:replace bufio.NewReader vModelBufioNewReader
func vModelBufioNewReader(r io.Reader) *bufio.Reader { return &bufio.Reader{} }

//verif:replace (*bufio.Reader).ReadString vModelBufioReadString
func vModelBufioReadString(b *bufio.Reader, delim byte) (string, error) {
	i := vStderrPos
	vStderrPos++
	if i >= len(vStderrLines) {
		return "", io.EOF
	}
	if i == len(vStderrLines)-1 {
		return vStderrLines[i], io.EOF
	}
	return vStderrLines[i], nil
}

type vStderr struct {
	data []byte
	pos  int
}

func (r *vStderr) Read(p []byte) (int, error) {
	if r.pos >= len(r.data) {
		return 0, io.EOF
	}
	n := copy(p, r.data[r.pos:])
	r.pos += n
	return n, nil
}

type vFwdPrinter struct {
	forwarded int
	other     int
}

func (p *vFwdPrinter) Printf(msg string, args ...any) { p.other++ }
func (p *vFwdPrinter) PrefixPrintf(prefix, msg string, args ...any) {
	if prefix == "referenceserver" {
		p.forwarded++
	} else {
		p.other++
	}
}

func H11b_q() {
	vSrv = &vSrvEnv{}
	proc := &vProc{}
	client := &vBatchClient{proc: proc, diesAt: -1}
	client.kind[0] = 1
	vBatch = client
	cases := []*conformancev1.TestCase{{
		Request:          &conformancev1.ClientCompatRequest{TestName: vBatchName(0), StreamType: 1, Protocol: 2, Codec: 1, Compression: 1, HttpVersion: 2},
		ExpectedResponse: &conformancev1.ClientResponseResult{},
	}}
	// stderr script: up to 2 lines; the last line may lack its newline (the server died mid-line)
	nl := vInt("nlines", 0, 2)
	lastNoNewline := vBool("lastNoNewline")
	wantFeedback, wantForward := 0, 0
	var all []byte
	vStderrLines, vStderrPos = nil, 0
	for i := 0; i < nl; i++ {
		var line string
		switch vIntAt("line", i, 2, 0, 3) {
		case 3:
			line = "s/one: invalid value: 42" // a feedback message that itself contains ": "
			wantFeedback++
		case 0:
			line = "s/one: bad header"
			wantFeedback++
		case 1:
			line = "unrelated: output"
			wantForward++
		default:
			line = "panic!"
			wantForward++
		}
		if !(i == nl-1 && lastNoNewline) {
			line += "\n"
		}
		vStderrLines = append(vStderrLines, line)
		all = append(all, line...)
	}
	if nl > 0 && !lastNoNewline {
		vStderrLines = append(vStderrLines, "") // the final ReadString returns ("", EOF)
	}
	results := newResults(1, &testTrie{}, &testTrie{}, nil)
	start := func(ctx context.Context, pipeStderr bool) (*process, error) {
		return &process{processController: proc, stdin: &vSrvIn{}, stdout: &vSrvOut{}, stderr: &vStderr{data: all}}, nil
	}
	errP := &vFwdPrinter{}
	rec := &vRecPrinter{}
	runTestCasesForServer(context.Background(), false, true, serverInstance{protocol: 2, httpVersion: 2}, cases,
		nil, nil, start, rec, errP, results, client, nil, false)
	fbText, hasFeedback := results.serverSideband[vBatchName(0)]
	for i := 0; i < nl; i++ {
		switch vIntAt("line", i, 2, 0, 3) {
		case 3:
			vAssert(strings.Contains(fbText, "invalid value: 42"), "every feedback line for a case is kept (a later line does not replace an earlier one)")
		case 0:
			vAssert(strings.Contains(fbText, "bad header"), "every feedback line for a case is kept (a later line does not replace an earlier one)")
		}
	}
	vAssert(hasFeedback == (wantFeedback > 0), "a 'name: message' line for a case of the batch is recorded as feedback for that case - also when it is the last line and lacks a newline")
	vAssert(errP.forwarded == wantForward, "every other stderr line is passed through")
	// the reference server is told what to expect
	if client.got[0] != nil {
		found := 0
		for _, h := range client.got[0].RequestHeaders {
			switch h.Name {
			case "x-expect-http-version":
				if len(h.Value) == 1 && h.Value[0] == "2" {
					found++
				}
			case "x-expect-protocol":
				if len(h.Value) == 1 && h.Value[0] == "2" {
					found++
				}
			case "x-expect-codec", "x-expect-compression":
				if len(h.Value) == 1 && h.Value[0] == "1" {
					found++
				}
			case "x-expect-http-method":
				if len(h.Value) == 1 && h.Value[0] == "POST" {
					found++
				}
			case "x-expect-tls":
				if len(h.Value) == 1 && h.Value[0] == "true" { // the fake server reports a certificate
					found++
				}
			}
		}
		vAssert(found == 6, "requests to a reference server carry the x-expect-* headers with this case's values")
	}
}
