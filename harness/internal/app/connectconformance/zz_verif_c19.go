//go:build verif

package connectconformance

import (
	"math"

	conformancev1 "connectrpc.com/conformance/internal/gen/proto/go/connectrpc/conformance/v1"
	"google.golang.org/protobuf/proto"
	"google.golang.org/protobuf/reflect/protoreflect"
	"google.golang.org/protobuf/types/known/anypb"
)

// C19 (padding clause): a request marked for expansion is padded so that its serialized size equals the server
// receive limit plus the requested offset exactly, or the suite is rejected with an error; nothing but the padding
// changes; no directive crashes the runner.
//
// The protobuf reflection and wire encoding are replaced by the wire-size model of DESIGN.md Appendix B:
// size(n) = other + (n == 0 ? 0 : 1 + varint(n) + n), where n is the length of the padding field.

type vPadMsg struct {
	other    int
	padding  []byte
	hasField bool
	sets     int
}

func (m *vPadMsg) ProtoReflect() protoreflect.Message { return &vRefl{m: m} }

type vRefl struct {
	protoreflect.Message
	m *vPadMsg
}

func (r *vRefl) Descriptor() protoreflect.MessageDescriptor { return &vDesc{m: r.m} }
func (r *vRefl) Get(fd protoreflect.FieldDescriptor) protoreflect.Value {
	vCurBytes = r.m.padding
	return protoreflect.Value{}
}
func (r *vRefl) Set(fd protoreflect.FieldDescriptor, v protoreflect.Value) {
	r.m.padding = vCurBytes
	r.m.sets++
}

type vDesc struct {
	protoreflect.MessageDescriptor
	m *vPadMsg
}

func (d *vDesc) Fields() protoreflect.FieldDescriptors { return &vFields{m: d.m} }
func (d *vDesc) FullName() protoreflect.FullName       { return "verif.PadMsg" }

type vFields struct {
	protoreflect.FieldDescriptors
	m *vPadMsg
}

func (f *vFields) ByName(n protoreflect.Name) protoreflect.FieldDescriptor {
	if !f.m.hasField || n != "request_data" {
		return nil
	}
	return &vField{}
}

type vField struct{ protoreflect.FieldDescriptor }

func (f *vField) Cardinality() protoreflect.Cardinality { return protoreflect.Optional }
func (f *vField) Kind() protoreflect.Kind               { return protoreflect.BytesKind }

var vCurBytes []byte

//verif:replace (google.golang.org/protobuf/reflect/protoreflect.Value).Bytes vModelValueBytes
func vModelValueBytes(v protoreflect.Value) []byte { return vCurBytes }

//verif:replace google.golang.org/protobuf/reflect/protoreflect.ValueOfBytes vModelValueOfBytes
func vModelValueOfBytes(b []byte) protoreflect.Value {
	vCurBytes = b
	return protoreflect.Value{}
}

func vVarintLen(n int) int {
	switch {
	case n < 1<<7:
		return 1
	case n < 1<<14:
		return 2
	case n < 1<<21:
		return 3
	case n < 1<<28:
		return 4
	}
	return 5
}

func vWireSize(other, n int) int {
	if n == 0 {
		return other
	}
	return other + 1 + vVarintLen(n) + n
}

//verif:replace google.golang.org/protobuf/proto.Size vModelProtoSize
func vModelProtoSize(m proto.Message) int {
	pm, ok := m.(*vPadMsg)
	if !ok {
		vAssert(false, "model limit: proto.Size on a message other than the padding model")
		return 0
	}
	return vWireSize(pm.other, len(pm.padding))
}

//verif:replace (*google.golang.org/protobuf/types/known/anypb.Any).MarshalFrom vModelAnyMarshalFrom
func vModelAnyMarshalFrom(x *anypb.Any, m proto.Message) error { return nil }

func H19a_q() {
	other := vInt("other", 0, 40)          // serialized size of everything except the padding field
	vAssume(other == 0 || other >= 4)      // sizes a real UnaryRequest can have without its request_data (keeps the native replay exact)
	pad0 := int(vU32("pad0") & 0x3fffff)   // initial padding length, < 2^22
	off := vI32("off")                     // size_relative_to_limit: any int32
	msg := &vPadMsg{other: other, hasField: vBool("hasField")}
	if vNative() {
		// natively the real reflection/wire code runs on a real message with the same padding length; the size of its
		// other fields is whatever the real encoding gives (close to `other`)
		vRunNativeC19(other, pad0, off, msg.hasField)
		return
	}
	msg.padding = make([]byte, pad0)
	vReqTable[0] = msg
	tc := &conformancev1.TestCase{
		Request:        &conformancev1.ClientCompatRequest{TestName: "t", RequestMessages: []*anypb.Any{{TypeUrl: "req", Value: []byte{0}}}},
		ExpandRequests: []*conformancev1.TestCase_ExpandedSize{{SizeRelativeToLimit: &off}},
	}
	err := expandRequestData(tc) // obligation: no reachable panic, whatever the directive
	target := int64(200*1024) + int64(off)
	final := vWireSize(msg.other, len(msg.padding))
	if err == nil {
		vAssert(int64(final) == target, "on success the serialized size is exactly limit + offset")
		vAssert(msg.other == other, "nothing but the padding changes")
	} else {
		d := target - int64(other)
		reachable := d == 0 || (d >= 3 && d != 130 && d != 16387 && d != 2097156 && d != 268435461)
		legit := !msg.hasField || target < 0 || target > math.MaxUint32 || !reachable
		// typical directives: little or no initial request data, target not within a few bytes of a varint boundary of the padding length
		near := func(b int64) bool { return d >= b-8 && d <= b+8 }
		typical := pad0 <= 16 && !near(130) && !near(16387) && !near(2097156) && !near(268435461)
		if typical {
			vAssert(legit, "typical directive: an error is returned only if the target size is negative, above 4 GiB, or not reachable")
		}
		vAssert(legit, "any directive: an error is returned only if the target size is negative, above 4 GiB, or not reachable by any padding length")
	}
	vAssert(msg.sets <= 2, "at most two adjustments")
}

func vRunNativeC19(other, pad0 int, off int32, hasField bool) {
	var m proto.Message
	if hasField {
		// other fields of exactly `other` bytes: none, or a response definition whose data has other-4 bytes
		req := &conformancev1.UnaryRequest{RequestData: make([]byte, pad0)}
		if other >= 4 {
			req.ResponseDefinition = &conformancev1.UnaryResponseDefinition{
				Response: &conformancev1.UnaryResponseDefinition_ResponseData{ResponseData: make([]byte, other-4)}}
		}
		m = req
	} else {
		m = &conformancev1.Header{Name: "x"}
	}
	a, err := anypb.New(m)
	if err != nil {
		panic(err)
	}
	tc := &conformancev1.TestCase{
		Request:        &conformancev1.ClientCompatRequest{TestName: "t", RequestMessages: []*anypb.Any{a}},
		ExpandRequests: []*conformancev1.TestCase_ExpandedSize{{SizeRelativeToLimit: &off}},
	}
	err = expandRequestData(tc)
	if err != nil && hasField {
		// the error must mean that no padding length gives the requested size
		target := int64(200*1024) + int64(off)
		req := m.(*conformancev1.UnaryRequest)
		req.RequestData = nil
		base := int64(proto.Size(req))
		reachable := false
		for n := target - base - 8; n <= target-base; n++ {
			if n < 0 || n > 1<<29 {
				continue
			}
			req.RequestData = make([]byte, n)
			if int64(proto.Size(req)) == target {
				reachable = true
			}
		}
		vAssert(target < 0 || target > math.MaxUint32 || !reachable, "any directive: an error is returned only if the target size is negative, above 4 GiB, or not reachable by any padding length")
	}
	if err == nil && hasField {
		out, uerr := tc.Request.RequestMessages[0].UnmarshalNew()
		if uerr != nil {
			panic(uerr)
		}
		vAssert(int64(proto.Size(out)) == int64(200*1024)+int64(off), "on success the serialized size is exactly limit + offset")
	}
}
