//go:build verif

package connectconformance

import (
	"errors"
)

// C04: the run succeeds iff every selected case ran and met its expectation (the part owned by report()).

var errVerifPlain = errors.New("verif: assertion failure")

//verif:replace connectrpc.com/conformance/internal/app/connectconformance.indent vModelIndent
func vModelIndent(s string) string { return s }

// vRecPrinter records what report() prints: which names appear in FAILED / INFO lines and the totals.
type vRecPrinter struct {
	failedNames  [4]string
	nFailed      int
	infoNames    [4]string
	nInfo        int
	total        int
	passed       int
	failed       int
	couldNotRun  int
	expected     int
	totalsLines  int
}

func (p *vRecPrinter) Printf(msg string, args ...any) {
	switch {
	case len(msg) >= 7 && msg[:7] == "FAILED:":
		if len(args) > 0 {
			if s, ok := args[0].(string); ok && p.nFailed < 4 {
				p.failedNames[p.nFailed] = s
			}
		}
		p.nFailed++
	case len(msg) >= 5 && msg[:5] == "INFO:":
		if len(args) > 0 {
			if s, ok := args[0].(string); ok && p.nInfo < 4 {
				p.infoNames[p.nInfo] = s
			}
		}
		p.nInfo++
	case len(msg) >= 12 && msg[:12] == "Total cases:":
		p.totalsLines++
		p.total, _ = args[0].(int)
		p.passed, _ = args[1].(int)
		p.failed, _ = args[2].(int)
	case len(msg) >= 7 && msg[:7] == "Another":
		p.couldNotRun, _ = args[0].(int)
	case len(msg) >= 9 && msg[:9] == "(Another ":
		p.expected, _ = args[0].(int)
	}
}

func (p *vRecPrinter) PrefixPrintf(prefix, msg string, args ...any) {}

func vName(i int) string {
	switch i {
	case 0:
		return "s/a"
	case 1:
		return "s/b"
	default:
		return "s/c"
	}
}

func h04a(N int) {
	r := newResults(0, &testTrie{}, &testTrie{}, nil) // callers always pass non-nil (possibly empty) tries
	var present, fail, noRun, setup, kFailing, kFlaky, feedback [3]bool
	n := 0
	for i := 0; i < N; i++ {
		present[i] = vBoolAt("present", i, 3)
		kind := vIntAt("kind", i, 3, 0, 2) // 0 pass, 1 failure, 2 could-not-run
		setup[i] = vBoolAt("setup", i, 3)
		kFailing[i] = vBoolAt("kfailing", i, 3)
		kFlaky[i] = vBoolAt("kflaky", i, 3)
		feedback[i] = vBoolAt("feedback", i, 3)
		if present[i] {
			var err error
			switch kind {
			case 1:
				err = errVerifPlain
				fail[i] = true
			case 2:
				err = &couldNotRunError{errVerifPlain}
				fail[i], noRun[i] = true, true
			}
			vAssume(err != nil || !setup[i]) // a setup error always carries an error
			r.outcomes[vName(i)] = testOutcome{actualFailure: err, setupError: setup[i], knownFailing: kFailing[i], knownFlaky: kFlaky[i]}
			n++
		}
		if feedback[i] {
			r.recordSideband(vName(i), "peer feedback")
		}
	}
	extra := vInt("extra", 0, 2) // selected cases that never produced an outcome
	// cases that only have feedback get an outcome from the feedback itself
	total := n + extra
	for i := 0; i < N; i++ {
		if !present[i] && feedback[i] {
			total++
		}
	}
	r.totalTestCount = total
	p := &vRecPrinter{}
	ok := r.report(p)

	// reference classification (DESIGN.md Appendix B)
	wantFailed, wantPassed, wantExpected, wantNoRun, outcomes := 0, 0, 0, 0, 0
	for i := 0; i < N; i++ {
		if !present[i] && !feedback[i] {
			continue
		}
		outcomes++
		f := (present[i] && fail[i]) || feedback[i]
		nr := present[i] && noRun[i]
		su := present[i] && setup[i]
		kf, kfl := kFailing[i], kFlaky[i]
		if !present[i] {
			kf, kfl = false, false // no patterns configured in this harness
		}
		expect := !su && (kf || (kfl && f))
		switch {
		case nr:
			wantNoRun++
		case !expect && f:
			wantFailed++
			named := false
			for j := 0; j < 4; j++ {
				if j < p.nFailed && p.failedNames[j] == vName(i) {
					named = true
				}
			}
			vAssert(named, "every failing case is named in a FAILED line")
		case expect && !f:
			wantFailed++
			named := false
			for j := 0; j < 4; j++ {
				if j < p.nFailed && p.failedNames[j] == vName(i) {
					named = true
				}
			}
			vAssert(named, "a known-failing case that passed is named in a FAILED line")
		case expect && f:
			wantExpected++
		default:
			wantPassed++
		}
	}
	vAssert(ok == (wantFailed == 0), "report() succeeds iff no case failed its expectation")
	vAssert(p.nFailed == wantFailed, "one FAILED line per failing case")
	vAssert(p.totalsLines == 1 && p.total == outcomes && p.passed == wantPassed && p.failed == wantFailed, "printed totals are exact")
	vAssert(p.expected == wantExpected, "expected failures are counted exactly")
	vAssert(p.couldNotRun == wantNoRun+(total-outcomes), "could-not-run count = marked outcomes + cases without any outcome")
	vAssert(wantPassed+wantFailed+wantExpected+wantNoRun == outcomes, "totals account for every case exactly once")
}

func H04a_q() { h04a(2) }
func H04a_t() { h04a(3) }
