//go:build verif

package main

import (
	"errors"
	"os"
	"path/filepath"
)

// C08 (second half): every pattern supplied - by repeated flags, by @files, or both - takes part.

var errVerifNoFile = errors.New("verif: no such file")

const vNumFiles = 2

var vFileData [vNumFiles][]byte
var vFileFails [vNumFiles]bool
var vFileDir string

//verif:replace os.ReadFile vModelReadFile
func vModelReadFile(name string) ([]byte, error) {
	for k := 0; k < vNumFiles; k++ {
		if name == vFileName(k) {
			if vFileFails[k] {
				return nil, errVerifNoFile
			}
			return vFileData[k], nil
		}
	}
	return nil, errVerifNoFile
}

func vFileName(k int) string {
	n := "f0"
	if k == 1 {
		n = "f1"
	}
	if vNative() {
		return filepath.Join(vFileDir, n)
	}
	return n
}

// specLines: reference for a pattern file - one pattern per line, surrounding white space trimmed,
// blank lines and lines starting with '#' ignored.
func specLines(d []byte) []string {
	out := make([]string, 0, 8)
	i := 0
	for i <= len(d) {
		j := i
		for j < len(d) && d[j] != '\n' {
			j++
		}
		lo, hi := i, j
		for lo < hi && (d[lo] == ' ' || d[lo] == '\t' || d[lo] == '\r') {
			lo++
		}
		for hi > lo && (d[hi-1] == ' ' || d[hi-1] == '\t' || d[hi-1] == '\r') {
			hi--
		}
		if hi > lo && d[lo] != '#' {
			out = append(out, string(d[lo:hi]))
		}
		i = j + 1
	}
	return out
}

func vEqStrings(a, b []string) bool {
	if len(a) != len(b) {
		return false
	}
	for i := range a {
		if a[i] != b[i] {
			return false
		}
	}
	return true
}

// H08f: parsePatternFile == specLines for any content.
func h08f(S int) {
	d := vBytesOf("data", S, "a#\n ")
	got := parsePatternFile(d)
	want := specLines(d)
	vAssert(vEqStrings(got, want), "parsePatternFile(data) == lines of data (trimmed, non-blank, non-comment), in order")
}

func H08f_q() { h08f(4) }
func H08f_t() { h08f(6) }

// H08e: argsToPatterns == concatenation, in order, of (literal | lines of the file) over all args.
func h08e(A, S int) {
	if vNative() {
		dir, err := os.MkdirTemp("", "verif")
		if err != nil {
			panic(err)
		}
		defer os.RemoveAll(dir)
		vFileDir = dir
	}
	for k := 0; k < vNumFiles; k++ {
		vFileFails[k] = vBoolAt("ffail", k, vNumFiles)
		if k == 0 {
			vFileData[k] = vBytesOf("file0", S, "ab\n")
		} else {
			vFileData[k] = vBytesOf("file1", S, "ab\n")
		}
		if vNative() && !vFileFails[k] {
			if err := os.WriteFile(vFileName(k), vFileData[k], 0o600); err != nil {
				panic(err)
			}
		}
	}
	na := vInt("nargs", 0, A)
	args := make([]string, na)
	want := make([]string, 0, 16)
	wantErr := false
	for i := 0; i < na; i++ {
		switch vIntAt("kind", i, A, 0, 3) {
		case 0:
			args[i] = "x/y"
		case 1:
			args[i] = "**/z"
		case 2:
			args[i] = "@" + vFileName(0)
		default:
			args[i] = "@" + vFileName(1)
		}
		if !wantErr {
			switch vIntAt("kind", i, A, 0, 3) {
			case 0, 1:
				want = append(want, args[i])
			case 2:
				if vFileFails[0] {
					wantErr = true
				} else {
					want = append(want, specLines(vFileData[0])...)
				}
			default:
				if vFileFails[1] {
					wantErr = true
				} else {
					want = append(want, specLines(vFileData[1])...)
				}
			}
		}
	}
	got, err := argsToPatterns(args)
	if wantErr {
		vAssert(err != nil, "an unreadable @file is an error")
	} else {
		vAssert(err == nil, "readable @files and literals give no error")
		vAssert(vEqStrings(got, want), "every pattern takes part: result == concatenation over all args of (literal | lines of @file), in order")
	}
}

func H08e_q() { h08e(3, 3) }
func H08e_t() { h08e(4, 5) }
